"""C08 — built outputs are ledger-valid; otherwise the builder refuses."""
import json, os
from lib import common as C
from lib.common import cz, cn, cnat, chx, cbool, clist, copt

PID = 'C08'
TARGETS = ['props/C08.vo', 'theories/ChangeOracle.vo']
LEVEL = 'proof'

MANIFEST = dict(
    text='Theorems (Coq, all bundles / policies / name lengths / quantities, by induction over the packing loops): the '
         'multi-assets returned by the packer are a split of the change bundle (per asset the quantities add up, nothing lost '
         'or duplicated); every output returned by the model of _calc_change has ADA >= 0 and strictly positive quantities, the '
         'change outputs add up to provided - requested, each holds at least coins_per_utxo_byte*(160+|its own serialization|) '
         'when the minimum is respected; every change value fits max_val_size (the packer sizes each part with max(minimum '
         'ADA, ADA of the change) and no output receives more); the model refuses with '
         'InsufficientUTxOBalance exactly when the ADA left cannot fund the minimum of every change output; serialization of an '
         'output / UTxO / body / transaction refuses any negative ADA or quantity; the min-ADA utility is the ledger formula, '
         'its answer for an output without ADA is accepted by the ledger once put into that output (answers below 2^32), and '
         'of the protocol parameters only coins_per_utxo_byte (and max_val_size for the change) enters (pparams/cfg_of; the '
         'legacy min_utxo / coins_per_utxo_word and the other fields are varied on every kind of case). '
         'Serialized sizes are computed inside the model by the CBOR encoder of Cbor.v/Value.v. Model tied to the code by exact '
         'correspondence on the private methods (_pack_tokens_for_change, _adding_asset_make_output_overflow, _calc_change, '
         '_add_change_and_fee, min_lovelace_post_alonzo, to_cbor validation) and by an end-to-end oracle on build().',
    note='Trusted: Coq kernel+vm_compute; hand model Change.v validated by differential runs; fee numbers passed as data; '
         'generator; driver (argument snapshots). No axioms. Findings reported and fixed while building the check: '
         'merge-change-underfunded (f703c57), last-change-plus-4-bytes and small-cpb-coin-width (c8b4af1).',
    technique='Coq proof (loop invariants, content abstraction, canonical-encoding lemma, size arithmetic) + slice '
              'correspondence + end-to-end oracle on decoded output bytes', ref='C08')
TRUSTED = [
    'Coq 8.16.1 kernel incl. vm_compute (no native_compute); no axioms (see Print Assumptions lines)',
    'hand model coq/theories/Change.v of txbuilder._calc_change/_pack_tokens_for_change/_adding_asset_make_output_overflow/'
    '_add_change_and_fee, utils.min_lovelace_post_alonzo and the validate() methods, on top of Value.v/Cbor.v; tied by exact '
    'correspondence (returned bundles in order incl. insertion order, coins, exception kinds)',
    'the fee estimates of _add_change_and_fee enter the model as numbers computed by the real _estimate_fee (C07)',
    'inline datum / reference script bytes of the min-ADA utility cases are produced by cbor2 on the Python side (opaque)',
    'tools/impl/change_driver.py (ChainContext serving the scenario, snapshots), tools/props/c08.py (generator, printer)',
]
ASSUMPTIONS = [
    'dict keys are unique (Python dict); an address is identified with its raw bytes',
    'the change bundle handed to the packer has well-formed dicts (wfm); C08_size: every single asset fits max_val_size '
    '(proved for 28-byte policies, names <= 32 bytes, quantities, minimum ADA and change < 2^64, max_val_size >= 85; a '
    'refuted lemma shows the premise is needed for max_val_size = 60, outside the range) and the change holds < 2^64 lovelace',
    'C08_outputs, minimum ADA of own size: coin < 2^32 or minimum <= 2^32 (the code computes the minimum with a 5-byte coin)',
    'C08_minada_zero_accepted: the answer is below 2^32 lovelace (needed: C08_minada_zero_needs_premise, per-byte price 2*10^7)',
    'typeguard / constructor validation outside the model (well-typed operands only)',
]
# regions reported to the coordinator and not yet answered: kept out of oracle_fail, counted in known_region_hits.
# None pending: merge-change-underfunded, last-change-plus-4-bytes and small-cpb-coin-width are fixed in /repo; their
# witnesses are corpus cases that must satisfy the oracle / be refused.
KNOWN_REGIONS = []
SMALL_CPBS = [1, 50, 300]  # minimum ADA below 65536 lovelace (fewer than 5 coin bytes)

ADDR_B = '00' + '11' * 28 + '22' * 28        # base address, testnet: 57 bytes
ADDR_E = '60' + '33' * 28                    # enterprise address, testnet: 29 bytes
ADDR_E2 = '60' + '44' * 28
ADDRS = [ADDR_B, ADDR_E]
CPBS = [4310, 4310, 4310, 1000, 34482, 410, 100000, 8620]
# legacy minimum-UTxO parameter as chain contexts report it: 1 ADA (old snapshots, test contexts), the per-byte price
# 4310 / 34482 (Blockfrost since Babbage), absent (Ogmios v6), and CBOR width boundaries of an unsigned integer
MIN_UTXOS = [None, 0, 1, 23, 24, 255, 256, 4310, 4310, 34482, 34482, 65535, 65536, 999978, 1000000, 1000000,
             2 ** 32 - 1, 2 ** 32, 5 * 10 ** 12]
PP_DEFAULT = {'min_utxo': 1000000}             # + coins_per_utxo_word = 8 * coins_per_utxo_byte (see change_driver.Ctx)
QTYS = [1, 1, 1, 2, 23, 24, 255, 256, 65535, 65536, 2 ** 32 - 1, 2 ** 32, 2 ** 63 - 1, 2 ** 64 - 1]
ERRMAP = {'InsufficientUTxOBalanceException': 'EInsufficient', 'InvalidTransactionException': 'EInvalidTx',
          'InvalidDataException': 'EInvalidData'}

HEADER = '''From Coq Require Import NArith ZArith String List Bool.
From PyC Require Import Base Cbor Dict Value Change ChangeOracle.
Import ListNotations.
Open Scope Z_scope.
'''


# ------------------------------------------------------------------ CBOR sizes (generator guidance only)
def hw(n):
    return 1 if n < 24 else 2 if n < 256 else 3 if n < 65536 else 5 if n < 2 ** 32 else 9


def ma_size(ma):
    s = hw(len(ma))
    for p, names in ma:
        s += hw(len(p) // 2) + len(p) // 2 + hw(len(names))
        for n, q in names:
            s += hw(len(n) // 2) + len(n) // 2 + hw(q)
    return s


# ------------------------------------------------------------------ generators
def rand_bundle(rng, total=None, npol=None, small_names=False):
    """0..60 assets over 1..6 policies, name lengths 0..32 -> ma literal"""
    npol = npol or rng.randint(1, 6)
    total = rng.choice([0, 1, 2, 3, 5, 8, 13, 21, 34, 60, rng.randint(0, 60)]) if total is None else total
    pols = [bytes(rng.getrandbits(8) for _ in range(28)).hex() for _ in range(npol)]
    ma, seen = [], set()
    style = rng.random()
    for i in range(total):
        p = rng.choice(pols)
        if small_names or style < 0.25:
            ln = rng.choice([0, 1, 2, 3])
        elif style < 0.5:
            ln = 32
        else:
            ln = rng.choice([0, 1, 5, 16, 23, 24, 31, 32, rng.randint(0, 32)])
        n = bytes(rng.getrandbits(8) for _ in range(ln)).hex()
        if (p, n) in seen:
            continue
        seen.add((p, n))
        q = rng.choice(QTYS) if rng.random() < 0.5 else rng.randint(1, 10 ** rng.randint(1, 12))
        for e in ma:
            if e[0] == p:
                e[1].append([n, q]); break
        else:
            ma.append([p, [[n, q]]])
    return ma


def rand_mvs(rng, ma):
    s = ma_size(ma) + 6
    r = rng.random()
    if r < 0.35:
        return rng.randint(100, 400)
    if r < 0.55:
        return max(100, min(5000, s + rng.choice([-5, -4, -3, -2, -1, 0, 0, 1, 2, 3, 4, 5])))
    if r < 0.7:
        return max(100, min(5000, s // rng.choice([2, 3, 4]) + rng.randint(-3, 3)))
    if r < 0.9:
        return rng.randint(400, 1500)
    return rng.choice([100, 5000, rng.randint(1500, 5000)])


def n_assets(ma):
    return sum(len(names) for _, names in ma)


def rand_pp(rng, cpb):
    """protocol parameters besides coins_per_utxo_byte / max_val_size, which C08's rule does not mention and the code
    must therefore not let into a minimum ADA: legacy min_utxo / coins_per_utxo_word in the shapes real backends
    report, fee coefficients (the fee is data for the slices), and a few unrelated fields. {} = the defaults."""
    pp = {}
    if rng.random() < 0.35:
        return pp
    if rng.random() < 0.8:
        pp['min_utxo'] = rng.choice(MIN_UTXOS + [cpb, cpb, cpb * 8, rng.randint(0, 70000), rng.randint(0, 3 * 10 ** 6)])
    if rng.random() < 0.5:
        pp['coins_per_utxo_word'] = rng.choice([None, 0, 34482, cpb, cpb * 8 + 1, rng.randint(0, 10 ** 6)])
    if rng.random() < 0.25:
        pp['min_fee_constant'], pp['min_fee_coefficient'] = rng.choice([(0, 0), (1000000, 100), (155381, 43), (200000, 0), (0, 44)])
    if rng.random() < 0.15:
        pp.update(rng.choice([{'key_deposit': 0}, {'min_pool_cost': 0}, {'protocol_major_version': 10, 'protocol_minor_version': 1},
                              {'collateral_percent': 0, 'max_collateral_inputs': 0}, {'max_tx_size': 65536},
                              {'pool_deposit': 0, 'key_deposit': 400000}]))
    return pp


def with_pp(rng, c):
    pp = rand_pp(rng, c['cpb'])
    if pp:
        c['pp'] = pp
    return c


def gen_pack(rng):
    ma = rand_bundle(rng)
    if not ma and rng.random() < 0.8:
        ma = rand_bundle(rng, total=rng.randint(1, 60))
    return with_pp(rng, dict(kind='pack', cpb=rng.choice(CPBS), mvs=rand_mvs(rng, ma), addr=rng.choice(ADDRS),
                             change=[rng.choice([0, 1, 1000000, 2 ** 32 - 1, 2 ** 32, 5 * 10 ** 12, rng.randint(0, 10 ** 8)]), ma]))


def gen_ovf(rng):
    out_ma = rand_bundle(rng, total=rng.randint(0, 20))
    cur = [[n, q] for _, names in rand_bundle(rng, total=rng.randint(0, 8), npol=1) for n, q in names]
    pid = bytes(rng.getrandbits(8) for _ in range(28)).hex()
    if out_ma and rng.random() < 0.2:
        pid = rng.choice(out_ma)[0]            # policy already present in the output
    name = bytes(rng.getrandbits(8) for _ in range(rng.choice([0, 1, 16, 32]))).hex()
    if cur and rng.random() < 0.15:
        name = rng.choice(cur)[0]
    total = [[pid, cur + [[name, 1]]]] + out_ma
    mvs = max(100, min(5000, ma_size(total) + 6 + rng.choice([-40, -8, -3, -2, -1, 0, 0, 1, 2, 3, 8, 40])))
    return with_pp(rng, dict(
        kind='ovf', cpb=rng.choice(CPBS), mvs=mvs, addr=rng.choice(ADDRS),
        out=[rng.choice([0, 0, 1, 1000000, 2 ** 32, rng.randint(0, 10 ** 7)]), out_ma], cur=cur, pid=pid, name=name,
        q=rng.choice(QTYS), max_coin=rng.choice([0, 0, 1, 65535, 65536, 1000000, 2 ** 32 - 1, 2 ** 32, 5 * 10 ** 12])))


def spread(rng, coin, ma, k):
    """split (coin, ma) over k literal values (quantities split too)"""
    vals = [[0, []] for _ in range(k)]
    rest = coin
    for i in range(k - 1):
        x = rng.randint(0, rest); vals[i][0] = x; rest -= x
    vals[k - 1][0] = rest
    for p, names in ma:
        for n, q in names:
            parts = [(rng.randrange(k), q)]
            if q > 1 and k > 1 and rng.random() < 0.2:
                x = rng.randint(1, q - 1); parts = [(rng.randrange(k), x), (rng.randrange(k), q - x)]
            for j, x in parts:
                for e in vals[j][1]:
                    if e[0] == p:
                        for nq in e[1]:
                            if nq[0] == n:
                                nq[1] += x; break
                        else:
                            e[1].append([n, x])
                        break
                else:
                    vals[j][1].append([p, [[n, x]]])
    return vals


def gen_calc_base(rng, kind='calc'):
    """a scenario with a huge amount of ADA; the left-over is tuned afterwards (see tune)"""
    change_ma = rand_bundle(rng)
    if kind != 'calc' and not change_ma and rng.random() < 0.7:
        change_ma = rand_bundle(rng, total=rng.randint(1, 60))
    req_ma = rand_bundle(rng, total=rng.choice([0, 0, 1, 3]), small_names=True)
    addr = rng.choice(ADDRS)
    nout = rng.choice([0, 1, 1, 2])
    out_coin = sum(rng.choice([1000000, 1500000, 2345678]) for _ in range(nout))
    outs = [[rng.choice([ADDR_E2, ADDR_E2, addr]), v] for v in spread(rng, out_coin, req_ma, nout)] if nout else []
    if not nout:
        req_ma = []
    total_ma = [[p, [list(nq) for nq in names]] for p, names in change_ma]
    for p, names in req_ma:                   # requested tokens must be provided
        total_ma.append([p, [list(nq) for nq in names]])
    # some requested assets are also part of the change
    if total_ma and req_ma and rng.random() < 0.5:
        p, names = rng.choice(req_ma)
        for e in total_ma:
            if e[0] == p:
                e[1][0][1] += rng.randint(1, 5); break
    nin = rng.choice([1, 1, 2, 3])
    c = dict(kind=kind, cpb=rng.choice(CPBS), mvs=rand_mvs(rng, change_ma), addr=addr, fee=rng.choice([0, 170000, 200000, 1234567]),
             outputs=outs, respect=rng.random() < 0.7, out_coin=out_coin, total_ma=total_ma, nin=nin)
    with_pp(rng, c)
    if kind == 'calc':
        r = rng.random()
        if r < 0.12 and total_ma:             # mint part of the provided tokens instead of holding them / burn
            p, names = total_ma[-1]
            c['mint'] = [[p, [[names[0][0], names[0][1]]]]]
            names.pop(0)
            if not names:
                total_ma.pop()
            if rng.random() < 0.3 and total_ma and total_ma[0][0] != p:
                p2, n2 = total_ma[0][0], total_ma[0][1][0]
                burn = rng.choice([1, n2[1], n2[1] + 1])
                c['mint'].append([p2, [[n2[0], -burn]]])
        if rng.random() < 0.1:
            c['withdrawals'] = [['e0' + '55' * 28, rng.choice([0, 5, 3000000])]]
        if rng.random() < 0.08:
            c['donation'] = rng.choice([1, 1000000])
    return c


def finish_inputs(rng, c, in_coin):
    vals = spread(rng, in_coin, c['total_ma'], c['nin'])
    c['inputs'] = [[bytes([0xa0 + i]).hex() * 32, i, c['addr'] if rng.random() < 0.8 else ADDR_E2, v] for i, v in enumerate(vals)]
    return c


def thresholds(probe_outs, cpb, respect):
    """min-ADA thresholds of the left-over from a probe run with plenty of ADA: the implementation's own
    change outputs tell the minimum each needs (coin of the non-last ones; the last one by its size)"""
    mins = []
    for k, (addr, val, cb) in enumerate(probe_outs):
        if k < len(probe_outs) - 1:
            mins.append(val[0])
        else:
            size = len(cb) // 2 - hw(val[0]) + 5
            mins.append(cpb * (160 + size))
    ts, acc = [], 0
    for m in mins:
        ts.append(acc + m if respect else acc)
        acc += m
    ts.append(acc)
    return ts


def tune(rng, c, ts):
    t = rng.choice(ts)
    r = rng.random()
    if r < 0.7:
        left = t + rng.choice([-2000, -1000, -100, -2, -1, 0, 0, 1, 2, 100, 1000, 2000, rng.randint(-2000, 2000)])
    elif r < 0.8:
        left = rng.choice([0, 1, -1, -5000])
    elif r < 0.9:
        left = t + rng.choice([2 ** 32, 2 ** 32 - 1 - t, 2 ** 32 - t, 5 * 10 ** 12])
    else:
        left = t + rng.randint(0, 5000000)
    return left


def case_left_over_to_in_coin(c, left):
    extra = sum(v for _, v in c.get('withdrawals', [])) - c.get('donation', 0)
    return max(0, c['out_coin'] + c['fee'] + left - extra)


def gen_minada(rng):
    c = dict(kind='minada', cpb=rng.choice(CPBS), addr=rng.choice(ADDRS + [ADDR_E2]),
             amount=[rng.choice([0, 0, 0, 0, 0, 1, 23, 24, 255, 256, 65535, 65536, 1000000, 2 ** 32 - 1, 2 ** 32, 45 * 10 ** 15]),
                     rand_bundle(rng, total=rng.choice([0, 0, 1, 2, 5, 20, 60]))],
             post_alonzo=rng.random() < 0.5, entry=rng.choice(['post', 'post', 'dispatch']))
    with_pp(rng, c)
    if c['amount'][1] and rng.random() < 0.3:
        # placeholders: zero quantities and policies whose entries are all zero are legal in an output object (dropped on the
        # wire); the utility must hand the object back with every one of them in place
        for e in c['amount'][1]:
            if rng.random() < 0.5:
                for nq in e[1]:
                    if rng.random() < 0.6:
                        nq[1] = 0
    r = rng.random()
    if r < 0.2:
        c['datum'] = ['hash', bytes(rng.getrandbits(8) for _ in range(32)).hex()]
    elif r < 0.4:
        c['datum'] = rng.choice([['int', rng.choice([0, 5, 2 ** 40])], ['bytes', bytes(rng.getrandbits(8) for _ in range(rng.choice([0, 3, 40]))).hex()],
                                 ['dict', [[1, rng.randint(0, 1000)], [2, 0]]]])
    if rng.random() < 0.25:
        c['script'] = rng.choice([['plutus2', bytes(rng.getrandbits(8) for _ in range(rng.choice([5, 30, 300]))).hex()],
                                  ['plutus1', bytes(rng.getrandbits(8) for _ in range(12)).hex()],
                                  ['native', bytes(rng.getrandbits(8) for _ in range(28)).hex()]])
    return c


def gen_ser(rng):
    level = rng.choice([0, 1, 2, 2, 3, 4])
    k = 1 if level == 3 else rng.choice([1, 1, 2, 3])       # collateral_return holds one output
    vals = []
    for _ in range(k):
        vals.append([rng.choice([0, 1, 1000000, 2 ** 33]), rand_bundle(rng, total=rng.choice([0, 1, 3, 6]), small_names=True)])
    r = rng.random()
    if r < 0.7:                                # plant a negative quantity somewhere
        v = rng.choice(vals)
        if v[1] and rng.random() < 0.6:
            e = rng.choice(v[1]); nq = rng.choice(e[1]); nq[1] = rng.choice([-1, -1, -2 ** 63, -5])
        else:
            v[0] = rng.choice([-1, -1, -1000000, -2 ** 64])
    elif r < 0.8 and vals[0][1]:               # zero quantity: legal (dropped on the wire)
        vals[0][1][0][1][0][1] = 0
    return dict(kind='ser', addr=rng.choice(ADDRS), level=level, values=vals, seq=rng.random() < 0.4, bare_int=rng.random() < 0.5)


def gen_build_base(rng):
    change_ma = rand_bundle(rng, total=rng.choice([0, 3, 8, 13, 21, 34, 60, rng.randint(1, 60)]))
    req_ma = rand_bundle(rng, total=rng.choice([0, 0, 1, 2]), small_names=True)
    addr = ADDR_B if rng.random() < 0.7 else ADDR_E
    merge = rng.random() < 0.45
    nout = rng.choice([1, 1, 2])
    coins = [rng.choice([1000000, 1500000, 2345678]) for _ in range(nout)]
    vals = spread(rng, 0, req_ma, nout)
    outs = []
    for i, v in enumerate(vals):
        v[0] = coins[i] + 1200000 * (1 + n_assets(v[1]) // 4)
        outs.append([ADDR_E2, v])
    if rng.random() < 0.55:                    # an existing output at the change address
        outs.insert(rng.randrange(len(outs) + 1), [addr, [rng.choice([1000000, 1000000, 2000000]), []]])
    out_coin = sum(v[0] for _, v in outs)
    total_ma = [[p, [list(nq) for nq in names]] for p, names in change_ma + req_ma]
    return with_pp(rng, dict(
        kind='build', cpb=rng.choice([4310, 4310, 4310, 1000, 34482, 8620]), mvs=rand_mvs(rng, change_ma), addr=addr, merge=merge,
        outputs=outs, out_coin=out_coin, total_ma=total_ma, nin=rng.choice([1, 2, 3]), fee=0,
        mode=rng.choice(['explicit', 'explicit', 'address'])))


def finish_pool(rng, c, in_coin):
    vals = spread(rng, in_coin, c['total_ma'], c['nin'])
    for v in vals:
        v[0] += 0
    c['pool'] = [[bytes([0xb0 + i]).hex() * 32, i, c['addr'], v] for i, v in enumerate(vals)]
    if c['mode'] == 'explicit':
        c['explicit'] = list(range(len(vals))); c['input_addresses'] = []
    else:
        c['explicit'] = [0]; c['input_addresses'] = [c['addr']]
    return c


# the two reported witnesses of region merge-change-underfunded (fixed by f703c57): must be refused now;
# and the witnesses of last-change-plus-4-bytes / small-cpb-coin-width (fixed by c8b4af1): must fit now
def corpus_cases():
    ma16 = [[('%02x' % (p + 1)) * 28, [[('%02x%02x' % (p, i)) + '78' * 30, 1] for i in range(8)]] for p in range(2)]
    ma3 = [['01' * 28, [[('00%02x' % i) + '78' * 30, 1] for i in range(3)]]]
    a = dict(kind='build', cpb=4310, mvs=400, addr=ADDR_B, merge=True, outputs=[[ADDR_B, [1000000, []]]],
             pool=[['01' * 32, 0, ADDR_B, [4000000, ma16]]], explicit=[0], input_addresses=[], corpus='merge-underfunded-A')
    b = dict(kind='build', cpb=4310, mvs=5000, addr=ADDR_B, merge=True, outputs=[[ADDR_E, [1000000, []]]],
             pool=[['01' * 32, 0, ADDR_B, [2143000, []]]], explicit=[0], input_addresses=[], corpus='merge-underfunded-B')
    p4 = dict(kind='build', cpb=4310, mvs=143, addr=ADDR_B, merge=False, outputs=[[ADDR_E, [1000000, []]]],
              pool=[['01' * 32, 0, ADDR_B, [2 ** 32 + 10000000, ma3]]], explicit=[0], input_addresses=[], corpus='plus4-build')
    p4c = dict(kind='calc', cpb=4310, mvs=143, addr=ADDR_B, fee=200000, respect=True,
               inputs=[['01' * 32, 0, ADDR_B, [2 ** 32 + 10000000, ma3]]], outputs=[[ADDR_E, [1000000, []]]], corpus='plus4-calc')
    ma2 = [['01' * 28, [[('00%02x' % i) + '78' * 30, 1] for i in range(2)]]]
    sm = dict(kind='calc', cpb=1, mvs=106, addr=ADDR_B, fee=200000, respect=True,
              inputs=[['01' * 32, 0, ADDR_B, [1400000, ma2]]], outputs=[], corpus='small-cpb-calc')
    # protocol parameter variants: the legacy min_utxo reported as the per-byte price (Blockfrost) must not enter the
    # minimum ADA of a zero-ADA output (utility) / of the non-last outputs of a split token change (calc, build)
    ma24 = [[('%02x' % (0xa0 + p)) * 28, [[(b'T%03d' % i).hex() + '74' * 4, 1 + i] for i in range(p, 24, 2)]] for p in range(2)]
    lg = {'min_utxo': 4310, 'coins_per_utxo_word': 34482}
    l1 = dict(kind='minada', cpb=4310, addr=ADDR_E, amount=[0, ma3], post_alonzo=True, entry='post', pp={'min_utxo': 4310},
              corpus='legacy-min-utxo-utility')
    l2 = dict(kind='minada', cpb=8620, addr=ADDR_B, amount=[0, []], post_alonzo=False, entry='dispatch',
              datum=['hash', '11' * 32], pp={'min_utxo': 34482, 'coins_per_utxo_word': None}, corpus='legacy-min-utxo-dispatch')
    l3 = dict(kind='calc', cpb=4310, mvs=150, addr=ADDR_E, fee=200000, respect=True, pp=lg,
              inputs=[['07' * 32, 0, ADDR_E, [40000000, ma24]]], outputs=[[ADDR_E2, [2000000, []]]], corpus='legacy-min-utxo-calc')
    l4 = dict(kind='build', cpb=4310, mvs=150, addr=ADDR_E, merge=False, outputs=[[ADDR_E2, [2000000, []]]], pp=lg,
              pool=[['07' * 32, 0, ADDR_E, [40000000, ma24]]], explicit=[0], input_addresses=[], corpus='legacy-min-utxo-build')
    return [a, b, p4, p4c, sm, l1, l2, l3, l4]


# ------------------------------------------------------------------ Coq rendering
def r_asset(a):
    return clist([f'({chx(bytes.fromhex(n))}, {cz(q)})' for n, q in a])


def r_ma(ma):
    return clist([f'({chx(bytes.fromhex(p))}, {r_asset(a)})' for p, a in ma])


def r_val(v):
    return f'(mkValue {cz(v[0])} {r_ma(v[1])})'


def r_cfg(c):
    """the protocol parameters of the case as a pparams record; the model reads them through cfg_of"""
    pp = c.get('pp') or {}
    mu = pp.get('min_utxo', PP_DEFAULT['min_utxo'])
    cpw = pp.get('coins_per_utxo_word', c['cpb'] * 8)
    oz = lambda x: 'None' if x is None else f'(Some {cz(x)})'
    return f'(cfg_of (mkPP {cz(c["cpb"])} {cz(c.get("mvs", 5000))} {oz(mu)} {oz(cpw)}))'


def r_res(r, f):
    if 'ok' in r:
        return f'(Ok {f(r["ok"])})'
    return f'(Err {ERRMAP.get(r["err"], "EOther")})'


def r_out(o):
    return f'(mkOut {chx(bytes.fromhex(o[0]))} {r_val(o[1])} None None)'


def r_cc(c):
    wd = clist([cz(v) for _, v in c.get('withdrawals', [])])
    return (f'(mkIn {cz(c["fee"])} {clist([r_val(u[3]) for u in c["inputs"]])} {clist([r_val(o[1]) for o in c["outputs"]])} '
            f'{r_ma(c.get("mint") or [])} {wd} {cz(c.get("donation", 0))} {chx(bytes.fromhex(c["addr"]))} {cbool(c["respect"])})')


def render_case(c, r):
    k = c['kind']
    a = chx(bytes.fromhex(c['addr']))
    if k == 'pack':
        return f'KPack {r_cfg(c)} {a} {r_val(c["change"])} {r_res(r, lambda l: clist([r_ma(m) for m in l]))}'
    if k == 'ovf':
        return (f'KOvf {r_cfg(c)} {a} {cz(c["max_coin"])} {r_val(c["out"])} {r_asset(c["cur"])} {chx(bytes.fromhex(c["pid"]))} '
                f'{chx(bytes.fromhex(c["name"]))} {cz(c["q"])} {cbool(r["ok"])}')
    if k == 'calc':
        return f'KCalc {r_cfg(c)} {r_cc(c)} {r_res(r, lambda l: clist([r_val(o[1]) for o in l]))}'
    if k == 'minada':
        d = c.get('datum')
        dat = 'None' if not d else (f'(Some (DHash {chx(bytes.fromhex(d[1]))}))' if d[0] == 'hash'
                                    else f'(Some (DInline {chx(bytes.fromhex(r["dbytes"]))}))')
        scr = 'None' if not c.get('script') else f'(Some {chx(bytes.fromhex(r["sbytes"]))})'
        o = f'(mkOut {a} {r_val(c["amount"])} {dat} {scr})'
        return (f'KMinAda {r_cfg(c)} {o} {chx(bytes.fromhex(r["own"]))} {chx(bytes.fromhex(r["map"]))} {cz(r["ok"])} '
                f'{cbool(r["unchanged"] and r["second"] == r["ok"])}')
    if k == 'add':
        ac = (f'(mkAc {cz(r["fee1"])} {cz(r["fee2"])} {clist([r_val(u[3]) for u in c["inputs"]])} '
              f'{clist([r_out(o) for o in c["outputs"]])} [] [] {cz(r["deposit"])} {a} {cbool(c["merge"])})')
        return f'KAdd {r_cfg(c)} {ac} {r_res(r, lambda l: clist([r_out(o) for o in l]))}'
    if k == 'ser':
        # a bare negative int assigned as amount is refused by the type check (TypeError): a refusal all the same
        bare = bool(c.get('seq') and c.get('bare_int') and any(v[0] < 0 and not v[1] for v in c['values']))
        refused = 'err' in r and (r['err'] == 'InvalidDataException' or (bare and r['err'] in ('TypeError', 'TypeCheckError')))
        return f'KSer {cn(c["level"])} {clist([r_val(v) for v in c["values"]])} {cbool(refused)}'
    if k == 'build':
        ok = r['ok']
        return (f'KBuild {r_cfg(c)} {cz(ok["fee"])} {clist([r_val(v) for v in ok["ins"]])} [] {cnat(ok["nreq"])} '
                f'{clist([chx(bytes.fromhex(o)) for o in ok["outs"]])}')
    raise ValueError(k)


def render(part):
    items = [f'({i}%nat, {render_case(c, r)})' for i, (c, r) in enumerate(part)]
    body = 'Definition cases : list (nat * ccase) :=\n' + clist(items) + '.\n'
    body += 'Eval vm_compute in (mismatching cases).\n'
    body += 'Eval vm_compute in (failing cases).\n'
    body += 'Eval vm_compute in (known_plus4 cases).\n'
    body += 'Eval vm_compute in (classes cases).\n'
    return body


CLASSES = {1: 'negative-or-nonpositive-quantity', 2: 'change-below-min-ada', 3: 'value-exceeds-max-val-size', 4: 'unbalanced',
           5: 'last-change-plus-4-bytes', 6: 'negative-not-refused', 7: 'min-ada-formula', 8: 'malformed-output',
           9: 'min-ada-answer-rejected-by-ledger'}


def cost(c):
    if c['kind'] in ('pack', 'calc', 'add'):
        src = c.get('change', [0, []])[1] if c['kind'] == 'pack' else c.get('total_ma') or sum((u[3][1] for u in c.get('inputs', [])), [])
        return 1 + n_assets(src) ** 2 / 40
    return 1


def evaluate(cases, results, nshards=None):
    """-> (mismatch idx, failing idx, plus4 idx, {idx: class}, compile errors); cases whose driver run
    produced nothing to evaluate in Coq are handled in Python"""
    mism, fail, plus4, cls, errs = set(), set(), set(), {}, []
    todo = []
    for i, (c, r) in enumerate(zip(cases, results)):
        if 'driver_error' in r:
            mism.add(i); fail.add(i); cls[i] = 'driver-error'
            continue
        if 'unchanged' in r and not r['unchanged'] or r.get('pool_unchanged') is False:
            fail.add(i); cls[i] = 'argument-mutated'
        if c['kind'] == 'ovf' and 'ok' not in r:
            mism.add(i); continue
        if c['kind'] == 'minada' and 'ok' not in r:
            mism.add(i); continue
        if c['kind'] == 'calc' and 'ok' in r and any(o[0] != c['addr'] for o in r['ok']):
            fail.add(i); cls[i] = 'change-at-wrong-address'
        if c['kind'] == 'build':
            if 'ok' not in r:
                continue                           # a refusal never violates C08
            if not r['ok']['decoded_same']:
                fail.add(i); cls[i] = 'body-not-reencodable'
        todo.append(i)
    # balance shards by estimated cost
    todo.sort(key=lambda i: -cost(cases[i]))
    n = nshards or max(1, min(C.NPROC, len(todo) // 8 or 1))
    buckets = [[] for _ in range(n)]
    loads = [0.0] * n
    for i in todo:
        j = loads.index(min(loads)); buckets[j].append(i); loads[j] += cost(cases[i])
    buckets = [b for b in buckets if b]
    shards = [render([(cases[i], results[i]) for i in b]) for b in buckets]
    for (ok, lists, log), b in zip(C.run_cases(PID, shards, HEADER), buckets):
        if not ok or len(lists) != 4:
            errs.append(log[-1500:]); continue
        mism.update(b[j] for j in lists[0]); fail.update(b[j] for j in lists[1]); plus4.update(b[j] for j in lists[2])
        bad = sorted(set(lists[1]) | set(lists[2]))
        for j, k in zip(bad, lists[3]):
            cls.setdefault(b[j], CLASSES.get(k, str(k)))
    return mism, fail, plus4, cls, errs


def make_probes(ctx, bases, kind):
    """phase 1 inputs: the scenario with plenty of ADA (run on the implementation to learn the min-ADA thresholds
    of its change outputs; generator guidance only)"""
    rng = ctx.rng
    probes = []
    for c in bases:
        if kind == 'build':
            p = finish_pool(rng, dict(c), c['out_coin'] + 60000000 + 3000000 * n_assets(c['total_ma']))
        else:
            p = finish_inputs(rng, dict(c), case_left_over_to_in_coin(c, 60000000 + 3000000 * n_assets(c['total_ma'])))
            p['kind'] = 'calc'; p['respect'] = True
        probes.append(p)
    return probes


def apply_tuning(ctx, bases, kind, res):
    """phase 2: set the left-over ADA within +-2000 lovelace of one of the thresholds"""
    rng = ctx.rng
    out = []
    for c, r in zip(bases, res):
        if kind == 'build':
            ok = r.get('ok')
            if ok:
                ts, acc = [0], 0
                for o in ok['outs'][ok['nreq']:]:
                    acc += c['cpb'] * (160 + len(o) // 2 + 3)                      # rough: guidance only
                    ts.append(acc)
                left = tune(rng, c, ts) if rng.random() < 0.8 else rng.randint(0, 30000000)
                c = finish_pool(rng, c, max(0, c['out_coin'] + ok['fee'] + left))
            else:
                c = finish_pool(rng, c, c['out_coin'] + rng.randint(0, 30000000))
        else:
            if 'ok' in r:
                respect = c['respect'] if kind == 'calc' else not c['merge']
                left = tune(rng, c, thresholds(r['ok'], c['cpb'], respect))
            else:
                left = rng.randint(-1000000, 10000000)
            c = finish_inputs(rng, c, case_left_over_to_in_coin(c, left))
        out.append(c)
    return out


def gen_cases(ctx, scale):
    rng = ctx.rng
    n = lambda q: max(1, int(q * scale))
    cases = corpus_cases()
    cases += [gen_pack(rng) for _ in range(n(90))]
    cases += [gen_ovf(rng) for _ in range(n(80))]
    calcs = [gen_calc_base(rng) for _ in range(n(220))]
    for c in calcs[:max(2, len(calcs) // 25)]:
        c['cpb'] = rng.choice(SMALL_CPBS)
    adds = []
    for _ in range(n(110)):
        c = gen_calc_base(rng, 'add')
        c['merge'] = rng.random() < 0.6
        c.pop('respect')
        if c['merge'] and rng.random() < 0.7 and not any(o[0] == c['addr'] for o in c['outputs']):
            coin = rng.choice([1000000, 1000000, 0, 2000000])
            c['outputs'].insert(rng.randrange(len(c['outputs']) + 1), [c['addr'], [coin, []]]); c['out_coin'] += coin
        c['fee'] = 190000          # placeholder for tuning; the real fee estimates are read from the builder
        adds.append(c)
    builds = [gen_build_base(rng) for _ in range(n(90))]
    groups = [(calcs, 'calc'), (adds, 'add'), (builds, 'build')]
    probes = [make_probes(ctx, b, k) for b, k in groups]
    res = C.run_impl('change_driver', {'cases': sum(probes, [])}, nshards=C.NPROC)
    pos = 0
    for (b, k), pr in zip(groups, probes):
        cases += apply_tuning(ctx, b, k, res[pos:pos + len(pr)])
        pos += len(pr)
    cases += [gen_minada(rng) for _ in range(n(100))]
    cases += [gen_ser(rng) for _ in range(n(80))]
    for c in cases:
        for k in ('total_ma', 'nin', 'out_coin', 'mode'):
            c.pop(k, None)
        if c['kind'] == 'add':
            c.pop('fee', None)
    return cases


def nontrivial(c, r):
    k = c['kind']
    if k in ('minada', 'ovf'):
        return True
    if k == 'ser':
        return any(v[0] < 0 or any(q < 0 for _, a in v[1] for _, q in a) for v in c['values'])
    if k == 'pack':
        return n_assets(c['change'][1]) >= 2
    if k in ('calc', 'add'):
        return 'err' in r or any(o[1][1] for o in r.get('ok', []))
    if k == 'build':
        return 'err' in r or len(r['ok']['outs']) > r['ok']['nreq'] or c['merge']
    return False


def region_of(c, r, cl):
    return f'{c["kind"]}:{cl}'


def correspond(ctx, scale=None):
    scale = scale or ctx.n(1.0, 12.0)
    cases = gen_cases(ctx, scale)
    results = C.run_impl('change_driver', {'cases': cases}, nshards=C.NPROC)
    mism, fail, plus4, cls, errs = evaluate(cases, results)
    if errs:
        raise RuntimeError('cases file failed to compile: ' + errs[0])
    # the fixed witnesses must now be refused; the known one must still be seen
    notes = {}
    for i, c in enumerate(cases):
        if c.get('corpus', '').startswith('merge-underfunded'):
            notes[c['corpus']] = results[i].get('err', 'RETURNED')
            if 'ok' in results[i] and i not in fail:
                pass                                   # returned AND valid: fine as well (oracle decided)
        if c.get('corpus', '').startswith(('plus4', 'small-cpb', 'legacy-min-utxo')):
            notes[c['corpus']] = ('oracle-fails:' + cls.get(i, '?')) if (i in fail or i in plus4) else \
                ('fits-now' if 'ok' in results[i] else results[i].get('err'))
    hist, errk, nchg, pph = {}, {}, {}, {}
    for c, r in zip(cases, results):
        hist[c['kind']] = hist.get(c['kind'], 0) + 1
        pp = c.get('pp') or {}
        mu = pp.get('min_utxo', 'default')
        for key in (['defaults'] if not pp else
                    ['min_utxo=' + ('None' if mu is None else mu if mu == 'default' else '<65536' if mu < 65536 else
                                    '<2^32' if mu < 2 ** 32 else '>=2^32')]
                    + [k for k in pp if k != 'min_utxo']):
            pph[key] = pph.get(key, 0) + 1
        if c['kind'] == 'minada' and c['amount'][0] == 0:
            pph['minada zero-ADA'] = pph.get('minada zero-ADA', 0) + 1
            if pp.get('min_utxo', 1000000) is not None and pp.get('min_utxo', 1000000) < 65536:
                pph['minada zero-ADA, min_utxo<65536'] = pph.get('minada zero-ADA, min_utxo<65536', 0) + 1
        if 'err' in r:
            errk[c['kind'] + ':' + r['err']] = errk.get(c['kind'] + ':' + r['err'], 0) + 1
        if c['kind'] in ('calc', 'pack') and 'ok' in r:
            nchg[min(len(r['ok']), 10)] = nchg.get(min(len(r['ok']), 10), 0) + 1
    distinct = len({C.canon_hash(c) for c, r in zip(cases, results) if 'driver_error' not in r and nontrivial(c, r)})

    def pack(i, cl):
        return {'input': cases[i], 'impl': results[i], 'region': region_of(cases[i], results[i], cl)}
    ofail, known_hits = [], {}
    for i in sorted(fail):
        f = pack(i, cls.get(i, 'unclassified'))
        if f['region'] in KNOWN_REGIONS:
            known_hits[f['region']] = known_hits.get(f['region'], 0) + 1
        else:
            ofail.append(f)
    ofail += [pack(i, 'value-exceeds-max-val-size') for i in sorted(plus4)]       # (class no longer produced by the oracle)
    return dict(
        evaluations=len(cases), distinct_nontrivial=distinct,
        rule='slice cases: real _pack_tokens_for_change / _adding_asset_make_output_overflow / _calc_change / '
             '_add_change_and_fee / min_lovelace_post_alonzo / to_cbor on prepared builders (bundles of 0..60 assets over 1..6 '
             'policies, names 0..32 bytes, left-over ADA within +-2000 lovelace of a min-ADA threshold of the change outputs, '
             'max_val_size 100..5000 incl. the exact size of the bundle +-5, coins_per_utxo_byte in {410,1000,4310,34482,100000} '
             '(plus a few in {1,50,300}), '
             'merge on/off with/without an output at the change address; on ~65% of the cases of every kind the chain '
             'context reports other protocol parameters than the test defaults: legacy min_utxo in {None, 0, CBOR width '
             'boundaries, 4310, 34482, the per-byte price, 1 ADA, >= 2^32, random}, coins_per_utxo_word in {None, 0, 34482, '
             '...}, fee coefficients, unrelated fields; the min-ADA utility through min_lovelace_post_alonzo and the '
             'min_lovelace dispatcher, ~1/3 of its outputs without ADA) and full build() scenarios; non-trivial = token '
             'bundle in the change or an exception (calc/add/build), >= 2 assets (pack), a planted negative (ser), all '
             'ovf/minada cases; distinct by hash',
        samples=[cases[4], cases[len(cases) // 2]],
        kind_histogram=hist, exception_histogram=errk, change_output_count_histogram=nchg, protocol_param_histogram=pph,
        known_region_hits=known_hits, corpus=notes,
        compared='model vs implementation: returned bundles in order (raw dict order), coins, exception kinds, overflow '
                 'booleans, min-ADA numbers and map-form bytes (the model reads coins_per_utxo_byte and max_val_size only, '
                 'whatever the other protocol parameters of the case); oracle on the implementation outputs: min-ADA answer '
                 'for a zero-ADA output accepted by the ledger rule once put into the output; amounts valid, change '
                 '>= min ADA of own size, value size <= max_val_size, change = provided - requested, negative refused, '
                 'arguments unchanged (snapshots); end to end: every output of the body decoded in Coq from its CBOR',
        mismatches=[{'input': cases[i], 'impl': results[i], 'region': 'model-vs-impl:' + cases[i]['kind']} for i in sorted(mism)[:20]],
        oracle_fail=ofail[:50],
    )


def search(ctx, mism):
    ctx.rng.seed(f'search-{ctx.seed}')
    r = correspond(ctx, 3.0 if ctx.quick else 20.0)
    return r['oracle_fail'][0] if r['oracle_fail'] else None


def replay(ctx, rep):
    case = rep['case']['input']
    res = C.run_impl('change_driver', {'cases': [case]}, nshards=1)
    mism, fail, plus4, cls, errs = evaluate([case], res, nshards=1)
    print('input:', json.dumps(case))
    print('implementation:', json.dumps(res[0])[:3000])
    print('model agrees:', 0 not in mism, ' property oracle holds:', 0 not in fail and 0 not in plus4, cls.get(0, ''))
    return 1 if (fail or plus4) else 0
