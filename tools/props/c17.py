"""C17 — identifiers are the specified BLAKE2b digests of the exact bytes.

regen():      re-extracts (Python `ast`, no import of the code) from the CURRENT source the digest sizes
              (hash.py *_SIZE and which one every hashing site uses), the language prefix bytes, the cut of
              an extended key, the native-script type tags and field orders, the CIP-14 hrp / size / operand
              order, the script address header constants, the shape of the two builder sites, HOW the identifiers
              are exposed (decorators: @property = recomputed at every read, @cached_property = remembered; any
              other decorator on a hashing function / accessor fails closed) and the key order of the keyed fields
              -> coq/gen/IdsGen.v.  props/C17.v proves `gen_cfg = spec_cfg` (C17_source_constants).
correspond(): drives the real library on every identifier kind; inside coqc the model (with the
              regenerated constants) is compared with the library, and the specification's digests are
              compared with the library's identifiers over the library's own serialized bytes.
              BLAKE2b inside coqc is a per-case lookup table filled here with hashlib.blake2b.
              STATE: `seq` cases let ONE real object (transaction body inside a transaction, auxiliary data, native
              script, typed datum) live through a generated sequence of identifier reads (every accessor), in-place
              edits, deep copies, re-encodings, re-wraps and re-signings (corpus/C17.json first, then random); after
              every step the object's serialization, at every read the container the library would ship and the
              identifier it answers are recorded.  Inside coqc the state machine of coq/theories/IdsSeq.v replays the
              sequence (correspondence: same serialization after every step, same answer at every read) and the
              oracle demands of every read: answer = specified digest of the bytes cut from the container shipped
              at that moment.
"""
import ast, hashlib, json, os
from lib import common as C

PID = 'C17'
TARGETS = ['theories/IdsOracle.vo', 'props/C17.vo']
LEVEL = 'proof'
GEN_OBLIGATIONS = []
KNOWN_REGIONS = []          # regions reported to the coordinator and not (yet) in known_findings.json

MANIFEST = dict(
    text='Theorems (Coq, BLAKE2b abstract as H : digest size -> bytes -> bytes): for every identifier-carrying object the '
         'preimage and digest size the code uses are the specified ones (native scripts: nested induction, the generic array '
         'serializer yields the CDDL form); script hashes separate scripts: under collision-freeness of H 28 equal hashes imply '
         'equal language and equal script bytes (unconditional form: a coincidence IS an explicit collision), via pairwise '
         'distinct language bytes and injectivity of the native-script encoder (Cbor.enc_inj); the transaction id binds the body '
         '(bytes and CBOR item); an extended key hashes as its first 32 bytes = its non-extended key; the add_script_input gate '
         'accepts a script only if its specified hash equals the payment credential (own-script, offered, reference-UTxO and '
         'chain-context paths) and a datum only if its hash equals the datum hash; the built body carries H 32 of exactly the '
         'auxiliary data shipped, None when there is none; an output given a datum through add_output (fresh, re-used or decoded '
         'output object) is locked by H 32 of exactly the datum bytes shipped (decision procedure KOutDatum on the built '
         'transaction). Constants (sizes, prefixes, cut, tags, hrp) are regenerated from the '
         'source and proved equal to the specification. Correspondence on the real objects incl. byte slices cut from the '
         'library\'s own serializations (transaction, witness set, outputs). '
         'STATE (IdsSeq.v): a state machine over (serialized item, values remembered by memoised accessors) with operations read '
         '(accessor chain tx.id -> body.id -> body.hash()), in-place edit by path (set/delete keyed field, append, replace), '
         're-encode, deep copy, re-wrap, neutral; theorem C17_sequence_ids: after EVERY operation sequence from every initial '
         'object, a read through any accessor is the specified digest of the item the edits alone produce (needs the regenerated '
         'memoisation flags to be false = part of C17_source_constants; with a flag set the statement is refuted by vm_compute: '
         'stale after read-edit-read, carried by deep copy, healed by re-encoding); C17_sequence_reread_differs: under '
         'collision-freeness an edit that changes the item changes every later read. Correspondence + oracle on generated '
         'lives of real bodies / auxiliary data / native scripts / typed datums.',
    note='Trusted: Coq kernel+vm_compute; hashlib.blake2b (fills the lookup table; which message is hashed is decided in Coq); '
         'hand model Ids.v tied by regenerated constants + correspondence; Cbor.v decoder used as the byte walker; driver. '
         'H_inj (collision-freeness) is a hypothesis of the separation/binding theorems only. No axioms.',
    technique='Coq proof (nested induction, encoder injectivity, gate as find-first) + translator (ast) + correspondence', ref='C17')
TRUSTED = [
    'Coq 8.16.1 kernel incl. vm_compute (no native_compute); no axioms (see Print Assumptions lines)',
    'hashlib.blake2b fills the per-case table (digest size, message) -> digest; the message is chosen inside coqc; '
    'a message missing from the table fails the run',
    'hand model coq/theories/Ids.v of the hashing sites; constants tied by the ast translator (coq/gen/IdsGen.v, '
    'C17_source_constants), behaviour tied by correspondence on real objects',
    'coq/theories/Cbor.v decoder `dec` used to cut items out of the library\'s bytes (round trip proved in CborProofs.v); '
    'own bech32 encoder in IdsOracle.v written from BIP-173',
    'tools/impl/ids_driver.py (calls the real pycardano API), generator in tools/props/c17.py',
    'sequences: the path/edit a driver operation corresponds to is computed by the generator (c17.py gen_seq_*); values of '
    'edits are standalone serializations (own encoders for ints, hashes, inputs, native scripts; a FRESH object\'s to_cbor() '
    'for outputs and metadata values); a wrong path shows up as a correspondence mismatch, not as a pass',
]
ASSUMPTIONS = [
    'H_inj H n (no two messages with one BLAKE2b-n digest) is a hypothesis of C17_separation, C17_tx_id_binds and '
    'C17_fingerprint_binds only; satisfiable (Example with H = identity); C17_separation_collision is the hypothesis-free form',
    'an ordinary (non-extended) verification key object holds 32 bytes (VerificationKey.hash hashes the whole payload)',
    'native-script integers are unsigned (< 2^64 for the injectivity theorem); bech32 is abstract in the theorems',
    'the id of a decoded transaction is the digest of the RE-ENCODED body (whether that equals the received bytes is C03)',
    'sequences: what a re-encoded / deep-copied object serializes to is taken from the implementation (codec: C01/C03; on the '
    'pinned tree copy.deepcopy drops the elements of an OrderedSet — reported; a copy that cannot be serialized is skipped '
    'as seq:copy-defect(OrderedSet) and counted); its identifier must still be the digest of ITS bytes',
    'sequences: memoisation is modelled as functools.cached_property does it (value in the instance __dict__: survives field '
    'assignment and deep copy, absent from a freshly decoded object); any other decorator / accessor shape fails the translator closed',
]

# ================================================================ translator
HASH_PY = 'pycardano/hash.py'


class Shape(Exception):
    pass


# the specified constants (what coq/theories/Ids.v spec_cfg says)
SPEC_FULL = dict(tx_size=32, datum_size=32, aux_size=32, key_size=28, nscript_size=28, pscript_size=28, rscript_size=28,
                 pref_native=b'\x00', pref_v1=b'\x01', pref_v2=b'\x02', pref_v3=b'\x03', pref_raw=b'\x01', ext_cut=32,
                 ntypes=[0, 1, 2, 3, 4, 5], fp_size=20, fp_hrp='asset', fp_policy_first=True,
                 addr_types=[1, 3, 5, 7], nets=[0, 1], aux_falsy=False,
                 memo_body_id=False, memo_tx_id=False, body_keys=[0, 1, 2], alonzo_keys=[0, 1, 2, 3, 4])


def _parse(rel):
    p = os.path.join(C.REPO, rel)
    return ast.parse(open(p).read(), filename=p)


def _cls(mod, name):
    for n in mod.body:
        if isinstance(n, ast.ClassDef) and n.name == name:
            return n
    raise Shape(f'class {name} not found')


def _fn(scope, name):
    for n in scope.body:
        if isinstance(n, (ast.FunctionDef,)) and n.name == name:
            return n
    raise Shape(f'function {name} not found in {getattr(scope, "name", "module")}')


def _calls(node, fname):
    return [n for n in ast.walk(node) if isinstance(n, ast.Call) and isinstance(n.func, ast.Name) and n.func.id == fname]


def _one_blake(fn):
    cs = _calls(fn, 'blake2b')
    if len(cs) != 1:
        raise Shape(f'{fn.name}: expected exactly one blake2b call, found {len(cs)}')
    return cs[0]


def _returns(fn):
    return [n for n in ast.walk(fn) if isinstance(n, ast.Return)]


def _single_return(fn):
    body = [s for s in fn.body if not (isinstance(s, ast.Expr) and isinstance(s.value, ast.Constant) and isinstance(s.value.value, str))]
    if len(body) != 1 or not isinstance(body[0], ast.Return):
        raise Shape(f'{fn.name}: expected a single return statement')
    return body[0].value


def _decos(fn):
    return [ast.unparse(d) for d in fn.decorator_list]


def _plain(fn, where):
    """a hashing function / method must be an ordinary one: any decorator (a cache, a wrapper) is a shape the model does not have"""
    if _decos(fn):
        raise Shape(f'{where}: unexpected decorator(s) {_decos(fn)}')


def _memo_of(fn, where):
    """an identifier exposed as an attribute: @property = recomputed at every read, @cached_property = remembered"""
    d = _decos(fn)
    if d == ['property']:
        return False
    if d in (['cached_property'], ['functools.cached_property']):
        return True
    raise Shape(f'{where}: decorator(s) {d} not understood (expected @property)')


def _field_keys(cl):
    """integer `key` metadata of the dataclass fields of a MapCBORSerializable, in declaration order"""
    keys = []
    for s_ in cl.body:
        if isinstance(s_, ast.AnnAssign) and isinstance(s_.value, ast.Call) and ast.unparse(s_.value.func) == 'field':
            md = [k.value for k in s_.value.keywords if k.arg == 'metadata']
            if len(md) != 1 or not isinstance(md[0], ast.Dict):
                raise Shape(f'{cl.name}.{ast.unparse(s_.target)}: field metadata not understood')
            kv = {ast.unparse(a): b for a, b in zip(md[0].keys, md[0].values)}
            kk = kv.get("'key'")
            if not (isinstance(kk, ast.Constant) and isinstance(kk.value, int) and 0 <= kk.value < 2 ** 32):
                raise Shape(f'{cl.name}.{ast.unparse(s_.target)}: key is not a small unsigned integer literal')
            keys.append(kk.value)
        elif isinstance(s_, ast.AnnAssign) and not ast.unparse(s_.annotation).startswith('ClassVar'):
            raise Shape(f'{cl.name}.{ast.unparse(s_.target)}: a field without key metadata')
    return keys


def const_bytes(node):
    """bytes value of the small set of constant expressions used for prefixes; anything else: fail closed"""
    if isinstance(node, ast.Constant) and isinstance(node.value, bytes):
        return node.value
    if isinstance(node, ast.Call):
        u = ast.unparse(node.func)
        if u == 'bytes' and len(node.args) == 1 and not node.keywords and isinstance(node.args[0], ast.Constant) \
                and isinstance(node.args[0].value, int) and 0 <= node.args[0].value <= 8:
            return bytes(node.args[0].value)
        if u == 'bytes.fromhex' and len(node.args) == 1 and isinstance(node.args[0], ast.Constant) and isinstance(node.args[0].value, str):
            return bytes.fromhex(node.args[0].value)
    raise Shape('not a constant bytes expression: ' + ast.unparse(node))


def _sizes():
    mod = _parse(HASH_PY)
    sizes = {}
    for n in mod.body:
        if isinstance(n, ast.Assign) and len(n.targets) == 1 and isinstance(n.targets[0], ast.Name) and n.targets[0].id.endswith('_SIZE'):
            if not (isinstance(n.value, ast.Constant) and isinstance(n.value.value, int)):
                raise Shape(f'hash.py: {n.targets[0].id} is not an integer literal')
            if n.targets[0].id in sizes:
                raise Shape(f'hash.py: {n.targets[0].id} assigned twice')
            sizes[n.targets[0].id] = n.value.value
    classes = {}
    for n in mod.body:
        if isinstance(n, ast.ClassDef):
            for s in n.body:
                if isinstance(s, ast.Assign) and [ast.unparse(t) for t in s.targets] == ['MAX_SIZE', 'MIN_SIZE']:
                    if isinstance(s.value, ast.Name) and s.value.id in sizes:
                        classes[n.name] = sizes[s.value.id]
                    elif isinstance(s.value, ast.Constant) and isinstance(s.value.value, int):
                        classes[n.name] = s.value.value
                    else:
                        raise Shape(f'hash.py: size of class {n.name} not understood')
    return sizes, classes


def _size_of(call, mod, sizes, where):
    if len(call.args) >= 2:
        e = call.args[1]
    else:
        kw = [k for k in call.keywords if k.arg == 'digest_size']
        if len(kw) != 1:
            raise Shape(f'{where}: blake2b without digest size')
        e = kw[0].value
    if isinstance(e, ast.Constant) and isinstance(e.value, int):
        return e.value
    if isinstance(e, ast.Name) and e.id in sizes:
        # the name must come from pycardano.hash and must not be rebound in this module
        imported = any(isinstance(n, ast.ImportFrom) and n.module == 'pycardano.hash' and any(a.name == e.id and a.asname is None for a in n.names)
                       for n in mod.body)
        rebound = any(isinstance(n, (ast.Assign, ast.AnnAssign, ast.AugAssign)) and e.id in
                      [ast.unparse(t) for t in (n.targets if isinstance(n, ast.Assign) else [n.target])] for n in ast.walk(mod))
        if not imported or rebound:
            raise Shape(f'{where}: {e.id} is not the constant imported from pycardano.hash')
        return sizes[e.id]
    raise Shape(f'{where}: digest size expression not understood: {ast.unparse(e)}')


def _prefix_plus(arg, tail_names, where):
    """arg is `<const prefix> + <tail>` or `<tail>` alone; returns the prefix bytes"""
    if isinstance(arg, ast.BinOp) and isinstance(arg.op, ast.Add) and ast.unparse(arg.right) in tail_names:
        return arg.left
    if ast.unparse(arg) in tail_names:
        return None
    raise Shape(f'{where}: hashed expression not understood: {ast.unparse(arg)}')


def extract():
    """returns (sizes, classes, g, errors): every site is extracted on its own; a site whose shape is not understood
    is reported in `errors` (the translator then FAILS, see regen) and keeps the specified constants so that the
    correspondence can still look for a failing input"""
    sizes, classes = _sizes()
    g = dict(SPEC_FULL)
    errors = []

    def site_0():
        # --- transaction id
        tmod = _parse('pycardano/transaction.py')
        body_cls = _cls(tmod, 'TransactionBody')
        f = _fn(body_cls, 'hash'); b = _one_blake(f)
        if ast.unparse(b.args[0]) != 'self.to_cbor()' or ast.unparse(_single_return(f)) != ast.unparse(b):
            raise Shape('TransactionBody.hash: expected `return blake2b(self.to_cbor(), ...)`')
        g['tx_size'] = _size_of(b, tmod, sizes, 'TransactionBody.hash')
        _plain(f, 'TransactionBody.hash')
        if ast.unparse(_single_return(_fn(body_cls, 'id'))) != 'TransactionId(self.hash())':
            raise Shape('TransactionBody.id')
        if ast.unparse(_single_return(_fn(_cls(tmod, 'Transaction'), 'id'))) != 'self.transaction_body.id':
            raise Shape('Transaction.id')
        # how the two ids are exposed (recomputed / remembered), and nothing else intercepts attribute access
        g['memo_body_id'] = _memo_of(_fn(body_cls, 'id'), 'TransactionBody.id')
        g['memo_tx_id'] = _memo_of(_fn(_cls(tmod, 'Transaction'), 'id'), 'Transaction.id')
        for cl in (body_cls, _cls(tmod, 'Transaction')):
            for s_ in cl.body:
                if isinstance(s_, ast.FunctionDef) and s_.name in ('__getattr__', '__getattribute__', '__setattr__', '__deepcopy__',
                                                                   '__copy__', '__reduce__', '__reduce_ex__', '__getstate__'):
                    raise Shape(f'{cl.name}.{s_.name}: attribute / copy protocol overridden')
        if [ast.unparse(b_) for b_ in body_cls.bases] != ['MapCBORSerializable']:
            raise Shape('TransactionBody bases')
        # keyed fields are emitted in declaration order: the model inserts a newly set field in ascending key order
        g['body_keys'] = _field_keys(body_cls)

    def site_1():
        # --- plutus: datum hash, script hash, prefixes
        pmod = _parse('pycardano/plutus.py')
        f = _fn(pmod, 'datum_hash'); b = _one_blake(f)
        if ast.unparse(b.args[0]) != 'cbor2.dumps(datum, default=default_encoder)' or \
                ast.unparse(_single_return(f)) != f'DatumHash({ast.unparse(b)})':
            raise Shape('datum_hash: expected DatumHash(blake2b(cbor2.dumps(datum, default=default_encoder), ...))')
        g['datum_size'] = _size_of(b, pmod, sizes, 'datum_hash')
        _plain(f, 'datum_hash')
        ph = _fn(_cls(pmod, 'PlutusData'), 'hash'); _plain(ph, 'PlutusData.hash')
        if ast.unparse(_single_return(ph)) != 'datum_hash(self)':
            raise Shape('PlutusData.hash: expected `return datum_hash(self)`')
        f = _fn(pmod, 'script_hash')
        _plain(f, 'script_hash'); _plain(_fn(pmod, 'plutus_script_hash'), 'plutus_script_hash')
        stmts = [s for s in f.body if not (isinstance(s, ast.Expr) and isinstance(s.value, ast.Constant))]
        if len(stmts) != 1 or not isinstance(stmts[0], ast.If):
            raise Shape('script_hash: expected one if/elif chain')
        chain, node = [], stmts[0]
        while True:
            chain.append((ast.unparse(node.test), node.body))
            if len(node.orelse) == 1 and isinstance(node.orelse[0], ast.If):
                node = node.orelse[0]
            else:
                last = node.orelse
                break
        if [c[0] for c in chain] != ['isinstance(script, NativeScript)', 'isinstance(script, PlutusScript)', 'type(script) is bytes'] \
                or len(last) != 1 or not isinstance(last[0], ast.Raise):
            raise Shape('script_hash: dispatch chain not understood: ' + repr([c[0] for c in chain]))
        for _, bd in chain:
            if len(bd) != 1 or not isinstance(bd[0], ast.Return):
                raise Shape('script_hash: branch body is not a single return')
        if ast.unparse(chain[0][1][0].value) != 'script.hash()':
            raise Shape('script_hash: native branch')
        bp = _calls(chain[1][1][0], 'blake2b'); br = _calls(chain[2][1][0], 'blake2b')
        if len(bp) != 1 or len(br) != 1:
            raise Shape('script_hash: blake2b calls')
        for b_, nm in ((bp[0], 'plutus'), (br[0], 'bytes')):
            if ast.unparse(chain[1 if nm == 'plutus' else 2][1][0].value) != f'ScriptHash({ast.unparse(b_)})':
                raise Shape(f'script_hash: {nm} branch does not return ScriptHash(blake2b(...))')
        pre = _prefix_plus(bp[0].args[0], ['script'], 'script_hash/PlutusScript')
        if pre is None or ast.unparse(pre) != 'script.get_script_hash_prefix()':
            raise Shape('script_hash: PlutusScript branch must hash script.get_script_hash_prefix() + script')
        g['pscript_size'] = _size_of(bp[0], pmod, sizes, 'script_hash/PlutusScript')
        pre = _prefix_plus(br[0].args[0], ['script'], 'script_hash/bytes')
        g['pref_raw'] = b'' if pre is None else const_bytes(pre)
        g['rscript_size'] = _size_of(br[0], pmod, sizes, 'script_hash/bytes')
        if ast.unparse(_single_return(_fn(pmod, 'plutus_script_hash'))) != 'script_hash(script)':
            raise Shape('plutus_script_hash')
        for v in (1, 2, 3):
            cl = _cls(pmod, f'PlutusV{v}Script')
            if [ast.unparse(b_) for b_ in cl.bases] != ['PlutusScript']:
                raise Shape(f'PlutusV{v}Script bases')
            g[f'pref_v{v}'] = const_bytes(_single_return(_fn(cl, 'get_script_hash_prefix')))
            ver = _single_return(_fn(cl, 'version'))
            if not (isinstance(ver, ast.Constant) and ver.value == v):
                raise Shape(f'PlutusV{v}Script.version')
        fv = _fn(_cls(pmod, 'PlutusScript'), 'from_version')
        if [ast.unparse(r.value) for r in _returns(fv)] != [f'PlutusV{v}Script(script_data)' for v in (1, 2, 3)]:
            raise Shape('PlutusScript.from_version')

    def site_2():
        # --- native scripts
        nmod = _parse('pycardano/nativescript.py')
        ncl = _cls(nmod, 'NativeScript')
        if [ast.unparse(b_) for b_ in ncl.bases] != ['ArrayCBORSerializable']:
            raise Shape('NativeScript bases')
        f = _fn(ncl, 'hash'); b = _one_blake(f)
        _plain(f, 'NativeScript.hash')
        assigns = {ast.unparse(s.targets[0]): ast.unparse(s.value) for s in f.body if isinstance(s, ast.Assign) and len(s.targets) == 1}
        if assigns.get('cbor_bytes') not in ('cast(bytes, self.to_cbor())', 'self.to_cbor()'):
            raise Shape('NativeScript.hash: cbor_bytes is not self.to_cbor()')
        pre = _prefix_plus(b.args[0], ['cbor_bytes'], 'NativeScript.hash')
        g['pref_native'] = b'' if pre is None else const_bytes(pre)
        g['nscript_size'] = _size_of(b, nmod, sizes, 'NativeScript.hash')
        rets = [ast.unparse(r.value) for r in _returns(f)]
        if rets != [f'ScriptHash({ast.unparse(b)})']:
            raise Shape('NativeScript.hash: return')
        expect_fields = {'ScriptPubkey': ['_TYPE', 'key_hash'], 'ScriptAll': ['_TYPE', 'native_scripts'],
                         'ScriptAny': ['_TYPE', 'native_scripts'], 'ScriptNofK': ['_TYPE', 'n', 'native_scripts'],
                         'InvalidBefore': ['_TYPE', 'before'], 'InvalidHereAfter': ['_TYPE', 'after']}
        ntypes = []
        for cname, flds in expect_fields.items():
            cl = _cls(nmod, cname)
            if [ast.unparse(b_) for b_ in cl.bases] != ['NativeScript']:
                raise Shape(f'{cname} bases')
            got, tval = [], None
            for s in cl.body:
                if isinstance(s, ast.AnnAssign) and not ast.unparse(s.annotation).startswith('ClassVar'):
                    got.append(ast.unparse(s.target))
                    if ast.unparse(s.target) == '_TYPE':
                        if not (isinstance(s.value, ast.Call) and ast.unparse(s.value.func) == 'field'):
                            raise Shape(f'{cname}._TYPE')
                        kws = {k.arg: k.value for k in s.value.keywords}
                        if not (isinstance(kws.get('default'), ast.Constant) and isinstance(kws['default'].value, int)
                                and ast.unparse(kws.get('init')) == 'False'):
                            raise Shape(f'{cname}._TYPE default')
                        tval = kws['default'].value
                elif isinstance(s, (ast.FunctionDef, ast.Assign)):
                    raise Shape(f'{cname}: unexpected member {ast.unparse(s)[:40]}')
            if got != flds or tval is None or tval < 0:
                raise Shape(f'{cname}: dataclass fields {got} (expected {flds})')
            ntypes.append(tval)
        g['ntypes'] = ntypes

    def site_3():
        # --- keys
        kmod = _parse('pycardano/key.py')
        f = _fn(_cls(kmod, 'VerificationKey'), 'hash'); b = _one_blake(f)
        if ast.unparse(b.args[0]) != 'self.payload' or ast.unparse(_single_return(f)) != f'VerificationKeyHash({ast.unparse(b)})':
            raise Shape('VerificationKey.hash: expected VerificationKeyHash(blake2b(self.payload, ...))')
        g['key_size'] = _size_of(b, kmod, sizes, 'VerificationKey.hash')
        _plain(f, 'VerificationKey.hash')
        xcl = _cls(kmod, 'ExtendedVerificationKey')
        _plain(_fn(xcl, 'hash'), 'ExtendedVerificationKey.hash'); _plain(_fn(xcl, 'to_non_extended'), 'to_non_extended')
        if ast.unparse(_single_return(_fn(xcl, 'hash'))) != 'self.to_non_extended().hash()':
            raise Shape('ExtendedVerificationKey.hash')
        r = _single_return(_fn(xcl, 'to_non_extended'))
        ok = isinstance(r, ast.Call) and ast.unparse(r.func) == 'VerificationKey' and len(r.args) == 1 and not r.keywords
        if ok:
            a = r.args[0]
            if ast.unparse(a) == 'self.payload':
                g['ext_cut'] = 4999                      # the whole payload (firstn 4999 of <= 128 bytes)
            elif isinstance(a, ast.Subscript) and ast.unparse(a.value) == 'self.payload' and isinstance(a.slice, ast.Slice) \
                    and a.slice.lower is None and a.slice.step is None and isinstance(a.slice.upper, ast.Constant) \
                    and isinstance(a.slice.upper.value, int) and 0 <= a.slice.upper.value < 4999:
                g['ext_cut'] = a.slice.upper.value
            else:
                ok = False
        if not ok:
            raise Shape('ExtendedVerificationKey.to_non_extended: expected VerificationKey(self.payload[:K])')
        for cname, base in (('PaymentVerificationKey', 'VerificationKey'), ('StakeVerificationKey', 'VerificationKey'),
                            ('StakePoolVerificationKey', 'VerificationKey'), ('PaymentExtendedVerificationKey', 'ExtendedVerificationKey'),
                            ('StakeExtendedVerificationKey', 'ExtendedVerificationKey')):
            cl = _cls(kmod, cname)
            if [ast.unparse(b_) for b_ in cl.bases] != [base] or any(isinstance(s, ast.FunctionDef) for s in cl.body):
                raise Shape(f'{cname}: expected a plain subclass of {base} without methods')

    def site_4():
        # --- auxiliary data
        mmod = _parse('pycardano/metadata.py')
        acl = _cls(mmod, 'AuxiliaryData')
        if [ast.unparse(b_) for b_ in acl.bases] != ['CBORSerializable']:
            raise Shape('AuxiliaryData bases')
        f = _fn(acl, 'hash'); b = _one_blake(f)
        if ast.unparse(b.args[0]) != 'self.to_cbor()' or ast.unparse(_single_return(f)) != f'AuxiliaryDataHash({ast.unparse(b)})':
            raise Shape('AuxiliaryData.hash: expected AuxiliaryDataHash(blake2b(self.to_cbor(), ...))')
        g['aux_size'] = _size_of(b, mmod, sizes, 'AuxiliaryData.hash')
        _plain(f, 'AuxiliaryData.hash')
        g['alonzo_keys'] = _field_keys(_cls(mmod, 'AlonzoMetadata'))
        if ast.unparse(_single_return(_fn(acl, 'to_primitive'))) != 'self.data.to_primitive()':
            raise Shape('AuxiliaryData.to_primitive')
        g['aux_falsy'] = any(isinstance(s, ast.FunctionDef) and s.name in ('__len__', '__bool__') for s in acl.body)

    def site_5():
        # --- CIP-14
        cmod = _parse('pycardano/cip/cip14.py')
        f = _fn(cmod, 'encode_asset'); b = _one_blake(f)
        a0 = ast.unparse(b.args[0])
        if a0 == 'policy_id + asset_name':
            g['fp_policy_first'] = True
        elif a0 == 'asset_name + policy_id':
            g['fp_policy_first'] = False
        else:
            raise Shape('encode_asset: hashed expression ' + a0)
        g['fp_size'] = _size_of(b, cmod, sizes, 'encode_asset')
        _plain(f, 'encode_asset')
        asg = [s for s in f.body if isinstance(s, ast.Assign) and s.value is b]
        rets = _returns(f)
        if len(asg) != 1 or len(rets) != 1 or not isinstance(rets[0].value, ast.Call) or ast.unparse(rets[0].value.func) != 'encode' \
                or len(rets[0].value.args) != 2 or ast.unparse(rets[0].value.args[1]) != ast.unparse(asg[0].targets[0]) \
                or not (isinstance(rets[0].value.args[0], ast.Constant) and isinstance(rets[0].value.args[0].value, str)):
            raise Shape('encode_asset: expected `return encode("<hrp>", <digest>)`')
        g['fp_hrp'] = rets[0].value.args[0].value
        # the operands are payloads / hex-decoded bytes of the arguments
        pre = [ast.unparse(s) for s in f.body if isinstance(s, ast.If)]
        want = ['if isinstance(policy_id, str):\n    policy_id = bytes.fromhex(policy_id)\nelif isinstance(policy_id, ScriptHash):\n    policy_id = policy_id.payload',
                'if isinstance(asset_name, str):\n    asset_name = bytes.fromhex(asset_name)\nelif isinstance(asset_name, AssetName):\n    asset_name = asset_name.payload']
        if pre != want:
            raise Shape('encode_asset: argument normalisation not understood')

    def site_6():
        # --- script addresses
        amod = _parse('pycardano/address.py')
        at = {}
        for s in _cls(amod, 'AddressType').body:
            if isinstance(s, ast.Assign) and isinstance(s.value, ast.Constant) and isinstance(s.value.value, int):
                at[ast.unparse(s.targets[0])] = s.value.value
        try:
            g['addr_types'] = [at['SCRIPT_KEY'], at['SCRIPT_SCRIPT'], at['SCRIPT_POINTER'], at['SCRIPT_NONE']]
        except KeyError as e:
            raise Shape(f'AddressType: {e}')
        acl2 = _cls(amod, 'Address')
        if ast.unparse(_single_return(_fn(acl2, '_compute_header_byte'))) != "(self.address_type.value << 4 | self.network.value).to_bytes(1, byteorder='big')":
            raise Shape('Address._compute_header_byte')
        rb = _returns(_fn(acl2, '__bytes__'))
        if len(rb) != 1 or ast.unparse(rb[0].value) != 'self.header_byte + bytes(payment) + bytes(staking)':
            raise Shape('Address.__bytes__')
        net = {}
        for s in _cls(_parse('pycardano/network.py'), 'Network').body:
            if isinstance(s, ast.Assign) and isinstance(s.value, ast.Constant) and isinstance(s.value.value, int):
                net[ast.unparse(s.targets[0])] = s.value.value
        try:
            g['nets'] = [net['TESTNET'], net['MAINNET']]
        except KeyError as e:
            raise Shape(f'Network: {e}')

    def site_7():
        # --- builder sites (shape only; behaviour is checked by the correspondence)
        bmod = _parse('pycardano/txbuilder.py')
        bcl = _cls(bmod, 'TransactionBuilder')
        kws = [k for c_ in _calls(_fn(bcl, '_build_tx_body'), 'TransactionBody') for k in c_.keywords if k.arg == 'auxiliary_data_hash']
        if len(kws) != 1 or ast.unparse(kws[0].value) != 'self.auxiliary_data.hash() if self.auxiliary_data else None':
            raise Shape('_build_tx_body: auxiliary_data_hash expression')
        rets = [ast.unparse(r.value) for r in _returns(_fn(bcl, 'build_and_sign'))]
        if rets != ['Transaction(tx_body, witness_set, auxiliary_data=self.auxiliary_data)']:
            raise Shape('build_and_sign: return')
        asi = _fn(bcl, 'add_script_input')
        src = [ast.unparse(s) for s in ast.walk(asi) if isinstance(s, (ast.Assign, ast.If))]
        if 'input_script_hash = utxo.output.address.payment_part' not in src:
            raise Shape('add_script_input: input_script_hash')
        if not any(s.startswith('if script_hash(candidate_script) != input_script_hash:\n    continue') for s in src):
            raise Shape('add_script_input: candidate comparison')




    for fn, title in ((site_0, 'transaction id'), (site_1, 'plutus: datum hash, script hash, prefixes'), (site_2, 'native scripts'), (site_3, 'keys'), (site_4, 'auxiliary data'), (site_5, 'CIP-14'), (site_6, 'script addresses'), (site_7, 'builder sites (shape only; behaviour is checked by the correspondence)'),):
        local = {}
        try:
            fn()
        except Shape as e:
            errors.append(f'{title}: {e}')
        except Exception as e:                       # anything unexpected in a site is a shape problem too
            errors.append(f'{title}: {type(e).__name__}: {e}')
    return sizes, classes, g, errors

def _coq_str(s):
    if not all(32 <= ord(ch) < 127 for ch in s):
        raise Shape('non-printable hrp')
    return '"' + s.replace('"', '""') + '"'


def gen_text(sizes, classes, g):
    nl = lambda l: '[' + '; '.join(f'{x}%N' for x in l) + ']'
    nat = lambda n: f'{n}%nat' if 0 <= n < 5000 else (_ for _ in ()).throw(Shape(f'size out of range: {n}'))
    want_cls = ['VerificationKeyHash', 'ScriptHash', 'TransactionId', 'DatumHash', 'AuxiliaryDataHash']
    for k in want_cls:
        if k not in classes:
            raise Shape(f'hash.py: class {k} has no MAX_SIZE = MIN_SIZE = <size>')
    t = f'''(* GENERATED by tools/props/c17.py (regen) from the current source — do not edit. *)
From Coq Require Import NArith String List.
From Coq Require Import Init.Byte.
From PyC Require Import Base Ids.
Import ListNotations.
Local Open Scope string_scope.

(* pycardano/hash.py: every *_SIZE constant *)
Definition gen_sizes : list (string * nat) :=
  [{'; '.join(f'({_coq_str(k)}, {nat(v)})' for k, v in sorted(sizes.items()))}].
(* pycardano/hash.py: MAX_SIZE = MIN_SIZE of the identifier classes *)
Definition gen_class_sizes : list (string * nat) :=
  [{'; '.join(f'({_coq_str(k)}, {nat(classes[k])})' for k in want_cls)}].

Definition gen_cfg : cfg := {{|
  c_tx_size := {nat(g['tx_size'])}; c_datum_size := {nat(g['datum_size'])}; c_aux_size := {nat(g['aux_size'])};
  c_key_size := {nat(g['key_size'])}; c_nscript_size := {nat(g['nscript_size'])};
  c_pscript_size := {nat(g['pscript_size'])}; c_rscript_size := {nat(g['rscript_size'])};
  c_pref_native := hx "{g['pref_native'].hex()}"; c_pref_v1 := hx "{g['pref_v1'].hex()}"; c_pref_v2 := hx "{g['pref_v2'].hex()}";
  c_pref_v3 := hx "{g['pref_v3'].hex()}"; c_pref_raw := hx "{g['pref_raw'].hex()}";
  c_ext_cut := {nat(g['ext_cut'])};
  c_ntypes := {nl(g['ntypes'])};
  c_fp_size := {nat(g['fp_size'])}; c_fp_hrp := {_coq_str(g['fp_hrp'])}; c_fp_policy_first := {'true' if g['fp_policy_first'] else 'false'};
  c_addr_types := {nl(g['addr_types'])}; c_nets := {nl(g['nets'])};
  c_aux_falsy_when_empty := {'true' if g['aux_falsy'] else 'false'};
  c_memo_body_id := {'true' if g['memo_body_id'] else 'false'}; c_memo_tx_id := {'true' if g['memo_tx_id'] else 'false'} |}}.

(* integer keys of the dataclass fields, in declaration order (= the order MapCBORSerializable emits them in) *)
Definition gen_body_keys : list N := {nl(g['body_keys'])}.       (* transaction.py TransactionBody *)
Definition gen_alonzo_keys : list N := {nl(g['alonzo_keys'])}.   (* metadata.py AlonzoMetadata *)
'''
    return t


def regen(ctx):
    sizes, classes, g, errors = extract()
    C.write_gen('IdsGen', gen_text(sizes, classes, g))
    ctx.gen = g
    if errors:
        raise Shape('source shape not understood (fail closed): ' + ' | '.join(errors))
    return g


# ================================================================ harness-side helpers
def b2(n, msg):
    return hashlib.blake2b(msg, digest_size=n).digest()


def py_head(major, n):
    if n < 24:
        return bytes([major * 32 + n])
    if n < 256:
        return bytes([major * 32 + 24, n])
    if n < 65536:
        return bytes([major * 32 + 25]) + n.to_bytes(2, 'big')
    if n < 2 ** 32:
        return bytes([major * 32 + 26]) + n.to_bytes(4, 'big')
    return bytes([major * 32 + 27]) + n.to_bytes(8, 'big')


def py_enc_native(t, types=(0, 1, 2, 3, 4, 5)):
    k = t[0]
    arr = lambda items: py_head(4, len(items)) + b''.join(items)
    if k == 'pk':
        kh = bytes.fromhex(t[1])
        return arr([py_head(0, types[0]), py_head(2, len(kh)) + kh])
    if k in ('all', 'any'):
        return arr([py_head(0, types[1 if k == 'all' else 2]), arr([py_enc_native(x, types) for x in t[1]])])
    if k == 'nofk':
        return arr([py_head(0, types[3]), py_head(0, t[1]), arr([py_enc_native(x, types) for x in t[2]])])
    return arr([py_head(0, types[4 if k == 'before' else 5]), py_head(0, t[1])])


def py_enc_simple(t):
    """ints (0 <= n < 2^64 or small negatives), bytes (<= 64), definite lists — the datums used in gate cases"""
    k = t[0]
    if k == 'int':
        return py_head(0, t[1]) if t[1] >= 0 else py_head(1, -1 - t[1])
    if k == 'bytes':
        b = bytes.fromhex(t[1])
        return py_head(2, len(b)) + b
    if k == 'list':
        return py_head(4, len(t[1])) + b''.join(py_enc_simple(x) for x in t[1])
    if k == 'ilist':
        return b'\x9f' + b''.join(py_enc_simple(x) for x in t[1]) + b'\xff'
    raise ValueError(k)


def item_end(bs, i):
    """own CBOR walker: index just after the data item starting at i"""
    ib = bs[i]
    major, ai = ib >> 5, ib & 31
    i += 1
    if major == 7:
        return i + {24: 1, 25: 2, 26: 4, 27: 8}.get(ai, 0)
    if ai == 31:
        if major in (2, 3, 4, 5):
            while bs[i] != 0xff:
                i = item_end(bs, i)
                if major == 5:
                    i = item_end(bs, i)
            return i + 1
        raise ValueError('bad indefinite item')
    if ai < 24:
        n = ai
    elif ai <= 27:
        w = 1 << (ai - 24)
        n = int.from_bytes(bs[i:i + w], 'big'); i += w
    else:
        raise ValueError('reserved additional info')
    if major in (0, 1):
        return i
    if major in (2, 3):
        return i + n
    if major == 4:
        for _ in range(n):
            i = item_end(bs, i)
        return i
    if major == 5:
        for _ in range(2 * n):
            i = item_end(bs, i)
        return i
    return item_end(bs, i)          # tag


def sub_slices(bs, depth=3):
    """byte slices of every item nested up to `depth` levels inside bs (arrays, maps, tags, and byte strings
    that themselves hold one CBOR item) — a generous candidate set for the BLAKE2b table"""
    out = []

    def rec(b, d):
        if not b:
            return
        try:
            if item_end(b, 0) != len(b):
                return
        except Exception:
            return
        out.append(bytes(b))
        if d == 0:
            return
        major, ai = b[0] >> 5, b[0] & 31
        if ai == 31 and major in (4, 5):
            i = 1
            while b[i] != 0xff:
                e = item_end(b, i); rec(b[i:e], d - 1); i = e
            return
        if ai == 31:
            return
        hl = 1 + ({24: 1, 25: 2, 26: 4, 27: 8}.get(ai, 0))
        if major in (4, 5):
            i = hl
            while i < len(b):
                e = item_end(b, i); rec(b[i:e], d - 1); i = e
        elif major == 6:
            rec(b[hl:], d)
        elif major == 2:
            rec(b[hl:], d - 1)
    rec(bytes(bs), depth)
    return out


def top_items(bs):
    """byte slices of the elements of a definite-length array with a one-byte head"""
    if not bs or bs[0] >> 5 != 4 or (bs[0] & 31) >= 24:
        return []
    out, i = [], 1
    for _ in range(bs[0] & 31):
        e = item_end(bs, i); out.append(bytes(bs[i:e])); i = e
    return out


def first_witness_datum(tx):
    """byte slice of the first element of witness-set entry 4 (plutus data) of a transaction, or None"""
    its = top_items(tx)
    if len(its) < 2:
        return None
    ws = its[1]
    if not ws or ws[0] >> 5 != 5 or (ws[0] & 31) >= 24:
        return None
    i = 1
    for _ in range(ws[0] & 31):
        ke = item_end(ws, i)
        ve = item_end(ws, ke)
        if ws[i:ke] == b'\x04':
            v = ws[ke:ve]
            if v[:3] == b'\xd9\x01\x02':
                v = v[3:]
            if not v or v[0] >> 5 != 4:
                return None
            if v[0] == 0x9f or (v[0] & 31) in range(1, 24):
                return bytes(v[1:item_end(v, 1)])
            return None
        i = ve
    return None


SPEC = dict(tx_size=32, datum_size=32, aux_size=32, key_size=28, nscript_size=28, pscript_size=28, rscript_size=28,
            pref_native=b'\x00', pref_v1=b'\x01', pref_v2=b'\x02', pref_v3=b'\x03', pref_raw=b'\x01', ext_cut=32,
            ntypes=[0, 1, 2, 3, 4, 5], fp_size=20, fp_hrp='asset', fp_policy_first=True)


def script_msgs(d, g, extra_bytes=()):
    """(size, message) pairs for a script description under the specified and the regenerated constants"""
    out = set()
    for c_ in (SPEC, g):
        if d[0] == 'native':
            for body in [py_enc_native(d[1]), py_enc_native(d[1], c_['ntypes'])] + list(extra_bytes):
                for pre in (SPEC['pref_native'], c_['pref_native']):
                    for n in (28, c_['nscript_size']):
                        out.add((n, pre + body))
        elif d[0] == 'plutus':
            sb = bytes.fromhex(d[2])
            for pre in (SPEC[f'pref_v{d[1]}'], c_[f'pref_v{d[1]}'], SPEC['pref_raw'], c_['pref_raw']):
                for n in (28, c_['pscript_size'], c_['rscript_size']):
                    out.add((n, pre + sb))
        else:
            sb = bytes.fromhex(d[1])
            for pre in (SPEC['pref_raw'], c_['pref_raw']):
                for n in (28, c_['rscript_size']):
                    out.add((n, pre + sb))
    return out


def spec_script_hash(d):
    if d[0] == 'native':
        return b2(28, b'\x00' + py_enc_native(d[1]))
    if d[0] == 'plutus':
        return b2(28, bytes([d[1]]) + bytes.fromhex(d[2]))
    return b2(28, b'\x01' + bytes.fromhex(d[1]))


# ================================================================ generators
def rb(rng, n):
    return bytes(rng.getrandbits(8) for _ in range(n))


def rand_nat(rng):
    return rng.choice([0, 1, 2, 5, 23, 24, 255, 256, 65535, 65536, 2 ** 32 - 1, 2 ** 32, 2 ** 63, 2 ** 64 - 1,
                       rng.randrange(100000), rng.randrange(2 ** 40)])


def rand_native(rng, depth):
    ks = ['pk', 'before', 'after'] + (['all', 'any', 'nofk'] * 2 if depth > 0 else [])
    k = rng.choice(ks)
    if k == 'pk':
        return ['pk', rb(rng, 28).hex()]
    if k in ('before', 'after'):
        return [k, rand_nat(rng)]
    subs = [rand_native(rng, depth - 1) for _ in range(rng.choice([0, 1, 1, 2, 2, 3, 4]))]
    if k == 'nofk':
        return ['nofk', rng.choice([0, 1, 2, len(subs), rand_nat(rng)]), subs]
    return [k, subs]


def rand_plutus_bytes(rng):
    n = rng.choice([0, 1, 2, 10, 23, 24, 63, 64, 65, 100, 255, 256, 300, rng.randrange(1, 200)])
    return rb(rng, n)


def rand_script(rng, raw=False):
    r = rng.random()
    if r < 0.4:
        return ['native', rand_native(rng, rng.choice([0, 1, 2, 3]))]
    if raw and r < 0.5:
        return ['raw', rand_plutus_bytes(rng).hex()]
    return ['plutus', rng.choice([1, 2, 3]), rand_plutus_bytes(rng).hex()]


def rand_int_datum(rng):
    return rng.choice([0, 1, 23, 24, -1, -24, -25, 255, 256, 65536, 2 ** 32, 2 ** 63, 2 ** 64 - 1, -2 ** 64,
                       rng.randrange(-10 ** 6, 10 ** 6)])


def rand_dtree(rng, depth, chunky=True):
    ks = ['int', 'bytes'] + (['list', 'ilist', 'map', 'constr'] if depth > 0 else [])
    k = rng.choice(ks)
    if k == 'int':
        return ['int', rand_int_datum(rng)]
    if k == 'bytes':
        return ['bytes', rb(rng, rng.choice([0, 1, 28, 32, 63, 64] + ([65, 100, 130] if chunky else []))).hex()]
    if k in ('list', 'ilist'):
        return [k, [rand_dtree(rng, depth - 1, chunky) for _ in range(rng.choice([0, 1, 2, 3]))]]
    if k == 'map':
        keys, kv = set(), []
        for _ in range(rng.choice([0, 1, 2, 3])):
            kk = rng.choice([['int', rng.randrange(0, 50)], ['bytes', rb(rng, rng.choice([1, 4])).hex()]])
            if json.dumps(kk) in keys:
                continue
            keys.add(json.dumps(kk)); kv.append([kk, rand_dtree(rng, depth - 1, chunky)])
        return ['map', kv]
    return ['constr', rng.choice([0, 1, 2, 6, 7, 10, 127]), [rand_dtree(rng, depth - 1, chunky) for _ in range(rng.choice([0, 1, 2]))]]


def rand_typed(rng, top=True):
    k = rng.choice(['DA', 'DB', 'DC', 'DU', 'DL']) if top else 'DA'
    if k == 'DA':
        return ['DA', rand_int_datum(rng), rb(rng, rng.choice([0, 5, 32, 64])).hex()]
    if k == 'DL':
        return ['DL', rb(rng, rng.choice([0, 64, 65, 100, 128, 129, 200])).hex()]
    if k == 'DB':
        ks = sorted({rng.randrange(0, 40) for _ in range(rng.choice([0, 1, 2, 3]))})
        return ['DB', rand_typed(rng, False), [rand_int_datum(rng) for _ in range(rng.choice([0, 1, 3]))],
                [[kk, rb(rng, rng.choice([0, 3, 32])).hex()] for kk in ks]]
    if k == 'DC':
        return ['DC', rand_int_datum(rng), rand_typed(rng, False)]
    return ['DU']


def py_head_wide(rng, major, n):
    """a head that is NOT necessarily the shortest one"""
    ws = [w for w, lim in ((0, 24), (1, 256), (2, 65536), (4, 2 ** 32), (8, 2 ** 64)) if n < lim]
    w = rng.choice(ws)
    return bytes([major * 32 + n]) if w == 0 else bytes([major * 32 + {1: 24, 2: 25, 4: 26, 8: 27}[w]]) + n.to_bytes(w, 'big')


def py_enc_wide(rng, t):
    k = t[0]
    if k == 'int':
        return py_head_wide(rng, 0, t[1]) if t[1] >= 0 else py_head_wide(rng, 1, -1 - t[1])
    if k == 'bytes':
        b = bytes.fromhex(t[1])
        return py_head_wide(rng, 2, len(b)) + b
    if k == 'list':
        return py_head_wide(rng, 4, len(t[1])) + b''.join(py_enc_wide(rng, x) for x in t[1])
    if k == 'ilist':
        return b'\x9f' + b''.join(py_enc_wide(rng, x) for x in t[1]) + b'\xff'
    if k == 'constr':
        tag = 121 + t[1] if t[1] < 7 else 1280 + t[1] - 7
        return py_head_wide(rng, 6, tag) + py_enc_wide(rng, ['list', t[2]])
    raise ValueError(k)


def rand_wide_tree(rng, depth):
    k = rng.choice(['int', 'bytes'] + (['list', 'ilist', 'constr'] * 2 if depth > 0 else []))
    if k == 'int':
        return ['int', rng.choice([0, 1, 23, 24, 255, 256, 70000, -1, -25, -300])]
    if k == 'bytes':
        return ['bytes', rb(rng, rng.choice([0, 1, 5, 30])).hex()]
    subs = [rand_wide_tree(rng, depth - 1) for _ in range(rng.choice([0, 1, 2, 3]))]
    return ['constr', rng.choice([0, 1, 6, 7, 20]), subs] if k == 'constr' else [k, subs]


def rand_datum(rng):
    form = rng.choice(['typed', 'typed', 'raw', 'raw', 'prim', 'prim', 'rawcbor', 'rawbytes'])
    if form == 'rawbytes':          # RawCBOR holding bytes that are not in shortest form: they must be hashed as they are
        return [form, py_enc_wide(rng, rand_wide_tree(rng, 2)).hex()]
    if form == 'typed':
        return [form, rand_typed(rng)]
    if form == 'raw':
        return [form, ['constr', rng.choice([0, 1, 3, 6, 7, 50]), [rand_dtree(rng, 2) for _ in range(rng.choice([0, 1, 2, 3]))]]]
    if form == 'rawcbor':
        return [form, rand_dtree(rng, 2, chunky=False)]
    # a primitive datum is an int, bytes, dict or IndefiniteList at the top (plutus.Datum)
    k = rng.choice(['int', 'bytes', 'map', 'ilist', 'map', 'ilist'])
    while True:
        d = rand_dtree(rng, 2)
        if d[0] == k:
            return [form, d]


def rand_md_val(rng, depth):
    ks = ['int', 'str', 'bytes'] + (['list', 'map'] if depth > 0 else [])
    k = rng.choice(ks)
    if k == 'int':
        return ['int', rng.choice([0, 1, 24, 2 ** 32, 2 ** 64 - 1, -1, -2 ** 63, rng.randrange(10 ** 9)])]
    if k == 'str':
        return ['str', ''.join(rng.choice('abcXYZ 019-_') for _ in range(rng.choice([0, 1, 10, 64])))]
    if k == 'bytes':
        return ['bytes', rb(rng, rng.choice([0, 1, 32, 64])).hex()]
    if k == 'list':
        return ['list', [rand_md_val(rng, depth - 1) for _ in range(rng.choice([0, 1, 2, 3]))]]
    seen, kv = set(), []
    for _ in range(rng.choice([0, 1, 2, 3])):
        kk = rng.choice([['int', rng.randrange(100)], ['str', rng.choice(['name', 'k', 'image', ''])]])
        if json.dumps(kk) in seen:
            continue
        seen.add(json.dumps(kk)); kv.append([kk, rand_md_val(rng, depth - 1)])
    return ['map', kv]


def rand_aux(rng):
    era = rng.choice(['shelley', 'allegra', 'alonzo', 'alonzo'])
    labels = sorted({rng.choice([0, 1, 674, 721, 2 ** 32, 2 ** 64 - 1, rng.randrange(10 ** 6)]) for _ in range(rng.choice([0, 1, 1, 2, 3]))})
    a = {'era': era, 'md': [[l, rand_md_val(rng, 2)] for l in labels], 'ns': [], 'ps': []}
    if era != 'shelley':
        a['ns'] = [rand_native(rng, rng.choice([0, 1, 2])) for _ in range(rng.choice([0, 0, 1, 2]))]
        a['ns_present'] = rng.random() < 0.3
    if era == 'alonzo':
        a['ps'] = [[rng.choice([1, 2, 3]), rand_plutus_bytes(rng).hex()] for _ in range(rng.choice([0, 0, 1, 2, 3]))]
        a['md_present'] = rng.random() < 0.85
    return a


def rand_addr(rng):
    pay = [rng.choice(['key', 'script']), rb(rng, 28).hex()]
    st = rng.choice([None, None, ['key', rb(rng, 28).hex()], ['script', rb(rng, 28).hex()],
                     ['ptr', [rng.randrange(10 ** 6), rng.randrange(300), rng.randrange(5)]]])
    return {'pay': pay, 'stake': st, 'net': rng.choice([0, 1])}


def rand_ma(rng):
    return [[rb(rng, 28).hex(), [[rb(rng, rng.choice([0, 3, 8, 32])).hex(), rng.randrange(1, 10 ** 9)]
                                  for _ in range(rng.choice([1, 2]))]] for _ in range(rng.choice([1, 1, 2]))]


def rand_output(rng):
    o = {'addr': rand_addr(rng), 'value': [rng.randrange(10 ** 6, 10 ** 10), rand_ma(rng) if rng.random() < 0.3 else []]}
    r = rng.random()
    if r < 0.15:
        o['dh'] = rb(rng, 32).hex()
    elif r < 0.3:
        o['datum'] = rng.choice([['prim', ['int', rand_int_datum(rng)]], ['prim', ['bytes', rb(rng, 8).hex()]],
                                 ['prim', ['ilist', [['int', 1], ['bytes', 'ab']]]], ['typed', ['DU']]])
    elif r < 0.4:
        o['script'] = rand_script(rng)
    elif r < 0.5:
        o['post_alonzo'] = True
    return o


def rand_txin(rng):
    return [rb(rng, 32).hex(), rng.randrange(0, 300)]


def rand_body(rng):
    b = {'inputs': [rand_txin(rng) for _ in range(rng.choice([1, 1, 2, 3, 5]))],
         'outputs': [rand_output(rng) for _ in range(rng.choice([1, 1, 2, 3]))],
         'fee': rng.choice([0, 170000, rng.randrange(150000, 3 * 10 ** 6), 2 ** 32])}
    opt = lambda p: rng.random() < p
    if opt(.4): b['ttl'] = rng.randrange(10 ** 8)
    if opt(.3): b['validity_start'] = rng.randrange(10 ** 8)
    if opt(.2): b['mint'] = [[p, [[n, rng.choice([q, -q])] for n, q in names]] for p, names in rand_ma(rng)]
    if opt(.3): b['aux_hash'] = rb(rng, 32).hex()
    if opt(.2): b['required_signers'] = [rb(rng, 28).hex() for _ in range(rng.choice([1, 2]))]
    if opt(.2): b['collateral'] = [rand_txin(rng) for _ in range(rng.choice([1, 2]))]
    if opt(.2): b['reference_inputs'] = [rand_txin(rng) for _ in range(rng.choice([1, 2]))]
    if opt(.2): b['network_id'] = rng.choice([0, 1])
    if opt(.2): b['script_data_hash'] = rb(rng, 32).hex()
    if opt(.15): b['withdrawals'] = [[(bytes([rng.choice([0xe0, 0xe1, 0xf0, 0xf1])]) + rb(rng, 28)).hex(), rng.randrange(10 ** 9)]]
    if opt(.1): b['total_collateral'] = rng.randrange(10 ** 7)
    if opt(.1): b['donation'] = rng.randrange(1, 10 ** 7)
    if opt(.1): b['current_treasury_value'] = rng.randrange(1, 10 ** 12)
    if opt(.12):
        # the legacy update field is typed Any: plain dicts, written in the caller's order (here: never the canonical one)
        prm = rng.sample([[0, 44], [1, 155381], [2, 65536], [16, 2000000], [17, 4310], [24, 3]], rng.choice([2, 3, 4]))
        if prm == sorted(prm):
            prm.reverse()
        gens = sorted([rb(rng, 28).hex() for _ in range(rng.choice([1, 2]))], reverse=True)
        b['update'] = {'props': [[g, prm] for g in gens], 'epoch': rng.randrange(600)}
    r = rng.random()
    if r < .15: b['inputs_as_list'] = True
    elif r < .3: b['no_tag'] = True
    return b


KEY_CLASSES = ['VerificationKey', 'PaymentVerificationKey', 'StakeVerificationKey', 'StakePoolVerificationKey',
               'ExtendedVerificationKey', 'PaymentExtendedVerificationKey', 'StakeExtendedVerificationKey']


def gen_key(rng):
    cls = rng.choice(KEY_CLASSES)
    ext = 'Extended' in cls
    from_sk = cls != 'VerificationKey' and cls != 'ExtendedVerificationKey' and rng.random() < 0.4
    n = (128 if ext else 32) if from_sk else (64 if ext else 32)
    return {'k': 'key', 'cls': cls, 'payload': rb(rng, n).hex(), 'from_sk': from_sk}


def mutate_native(rng, t):
    """a native script differing from t in one place"""
    k = t[0]
    if k == 'pk':
        b = bytearray(bytes.fromhex(t[1])); b[rng.randrange(len(b))] ^= 1 << rng.randrange(8)
        return ['pk', bytes(b).hex()]
    if k in ('before', 'after'):
        return rng.choice([[k, t[1] + 1 if t[1] < 2 ** 64 - 1 else t[1] - 1], ['after' if k == 'before' else 'before', t[1]]])
    subs = t[2] if k == 'nofk' else t[1]
    if subs and rng.random() < 0.6:
        i = rng.randrange(len(subs))
        ns = subs[:i] + [mutate_native(rng, subs[i])] + subs[i + 1:]
        return ['nofk', t[1], ns] if k == 'nofk' else [k, ns]
    if k == 'nofk':
        return ['nofk', t[1] + 1 if t[1] < 2 ** 64 - 1 else 0, subs]
    return ['any' if k == 'all' else 'all', subs]


def gen_gate(rng):
    r = rng.random()
    if r < 0.35:
        S = ['native', rand_native(rng, rng.choice([0, 1, 2]))]
    elif r < 0.45:       # a Plutus script whose bytes are the CBOR of a native script
        S = ['plutus', rng.choice([1, 2, 3]), py_enc_native(rand_native(rng, rng.choice([0, 1, 2]))).hex(), 'twin']
    elif r < 0.5:
        S = ['plutus', rng.choice([1, 2, 3]), '']
    else:
        S = ['plutus', rng.choice([1, 2, 3]), rand_plutus_bytes(rng).hex()]
    twin_tree = None
    if len(S) == 4:
        S = S[:3]
    scripts = [S]
    wrong = []
    if S[0] == 'native':
        cb = py_enc_native(S[1])
        wrong.append(['plutus', rng.choice([1, 2, 3]), cb.hex()])                # native vs Plutus, same bytes
        wrong.append(['native', mutate_native(rng, S[1])])                        # one place changed
        wrong.append(['raw', cb.hex()])
    else:
        v, sb = S[1], bytes.fromhex(S[2])
        wrong.append(['plutus', rng.choice([x for x in (1, 2, 3) if x != v]), S[2]])   # other language, same bytes
        if sb:
            fl = bytearray(sb); fl[rng.randrange(len(fl))] ^= 1 << rng.randrange(8)
            wrong.append(['plutus', v, bytes(fl).hex()])                          # one flipped bit
            wrong.append(['plutus', v, sb[:-1].hex()])
        else:
            wrong.append(['plutus', v, '00'])
        wrong.append(['raw', S[2]])                                               # plain bytes: right iff V1
        # the native script with these very bytes, when they are one
        try:
            tw = _native_from_bytes(sb)
            if tw is not None:
                wrong.append(['native', tw])
        except Exception:
            pass
    rng.shuffle(wrong)
    scripts += wrong[:rng.choice([1, 2, 3])]
    n = len(scripts)
    pick = lambda: rng.choice([0, 0] + list(range(n)))
    c = {'k': 'gate', 'scripts': scripts, 'id': 1, 'addr_script': rng.random() < 0.93}
    c['pay'] = spec_script_hash(S).hex() if c['addr_script'] else rb(rng, 28).hex()
    r = rng.random()
    c['stake'] = None if r < 0.5 else ['key', rb(rng, 28).hex()] if r < 0.65 else ['script', spec_script_hash(scripts[rng.randrange(1, n)]).hex()]
    nonraw = [i for i in range(n) if scripts[i][0] != 'raw']
    c['own'] = rng.choice(nonraw) if rng.random() < 0.25 else None
    r = rng.random()
    if r < 0.2:
        c['offer'] = None
    elif r < 0.7:
        c['offer'] = ['script', pick()]
    else:
        c['offer'] = ['ref', {'id': rng.choice([1, 2, 2, 2]), 'script': rng.choice(nonraw + [None]) if rng.random() < 0.9 else None}]
        if c['offer'][1]['id'] == 1:
            c['offer'][1]['script'] = c['own']
    c['ctx'] = [{'id': 3 + i, 'script': rng.choice(nonraw + [None])} for i in range(rng.choice([0, 0, 1, 2, 3]))]
    # datum
    r = rng.random()
    D = rng.choice([['int', rng.randrange(1000)], ['bytes', rb(rng, 8).hex()], ['ilist', [['int', 1], ['bytes', 'ab']]]])
    D2 = ['int', 1000 + rng.randrange(1000)]
    c['datum_hash'] = None; c['inline'] = None; c['datum'] = None
    if r < 0.25:
        c['datum_hash'] = b2(32, py_enc_simple(D)).hex()
        c['datum'] = rng.choice([['prim', D], ['prim', D], ['prim', D2], None])
    elif r < 0.35:
        c['inline'] = ['prim', D]
        c['datum'] = rng.choice([None, None, ['prim', D]])
    elif r < 0.45:
        c['datum'] = ['prim', D]
    return c


def _native_from_bytes(b):
    """inverse of py_enc_native on its image (None when b is not such an encoding)"""
    def item(i):
        ib = b[i]; major, ai = ib >> 5, ib & 31; i += 1
        if ai < 24: n = ai
        elif ai in (24, 25, 26, 27):
            w = 1 << (ai - 24); n = int.from_bytes(b[i:i + w], 'big'); i += w
        else: raise ValueError()
        return major, n, i

    def script(i):
        m, n, i = item(i)
        if m != 4: raise ValueError()
        m2, ty, i = item(i)
        if m2 != 0: raise ValueError()
        if ty == 0 and n == 2:
            m3, l, i = item(i)
            if m3 != 2: raise ValueError()
            return ['pk', b[i:i + l].hex()], i + l
        if ty in (1, 2) and n == 2:
            m3, l, i = item(i)
            if m3 != 4: raise ValueError()
            subs = []
            for _ in range(l):
                s, i = script(i); subs.append(s)
            return ['all' if ty == 1 else 'any', subs], i
        if ty == 3 and n == 3:
            m3, k, i = item(i)
            m4, l, i = item(i)
            if m3 != 0 or m4 != 4: raise ValueError()
            subs = []
            for _ in range(l):
                s, i = script(i); subs.append(s)
            return ['nofk', k, subs], i
        if ty in (4, 5) and n == 2:
            m3, k, i = item(i)
            if m3 != 0: raise ValueError()
            return ['before' if ty == 4 else 'after', k], i
        raise ValueError()
    try:
        s, i = script(0)
    except (ValueError, IndexError):
        return None
    return s if i == len(b) and py_enc_native(s) == b else None



# ================================================================ operation sequences on one living object
# A case {'k': 'seq', 'kind': body|aux|native|datum, 'origin': direct|decoded|builder, <initial object>, 'ops': [...],
# 'model': [...]}: `ops` is what the driver does to the REAL object, `model[i]` is the same step as an edit of the
# serialized item (path + edit, values as hex; None where the value is the standalone serialization the driver returns).
BODY_KEY = {'fee': 2, 'ttl': 3, 'auxiliary_data_hash': 7, 'validity_start': 8, 'script_data_hash': 11, 'collateral': 13,
            'required_signers': 14, 'network_id': 15, 'total_collateral': 17, 'reference_inputs': 18,
            'current_treasury_value': 21, 'donation': 22}
BODY_OPTIONAL = [f for f in BODY_KEY if f != 'fee']


def py_enc_txin(t):
    return b'\x82' + py_head(2, 32) + bytes.fromhex(t[0]) + py_head(0, t[1])


def body_field_value(rng, f):
    """(JSON value for the driver, standalone CBOR of that value by the harness's own encoder)"""
    if f in ('ttl', 'validity_start'):
        v = rng.choice([0, 1, 23, 24, 255, 256, 65535, 65536, rng.randrange(10 ** 8), 2 ** 32, 2 ** 63])
        return v, py_head(0, v)
    if f == 'fee':
        v = rng.choice([0, 170000, rng.randrange(150000, 3 * 10 ** 6), 2 ** 32 + rng.randrange(1000)])
        return v, py_head(0, v)
    if f in ('total_collateral', 'donation', 'current_treasury_value'):
        v = rng.randrange(1, 10 ** 12)
        return v, py_head(0, v)
    if f in ('script_data_hash', 'auxiliary_data_hash'):
        b = rb(rng, 32)
        return b.hex(), py_head(2, 32) + b
    if f == 'network_id':
        v = rng.choice([0, 1])
        return v, py_head(0, v)
    if f == 'required_signers':
        hs = [rb(rng, 28) for _ in range(rng.choice([1, 2, 3]))]
        return [h.hex() for h in hs], py_head(4, len(hs)) + b''.join(py_head(2, 28) + h for h in hs)
    if f in ('collateral', 'reference_inputs'):
        ts = [rand_txin(rng) for _ in range(rng.choice([1, 2]))]
        return ts, py_head(4, len(ts)) + b''.join(py_enc_txin(t) for t in ts)
    raise ValueError(f)


def seq_skeleton(rng, levels, extra=()):
    """the order of reads / edits / object-identity operations; every sequence ends with a read, most start with one"""
    n = rng.choice([2, 3, 3, 4, 5, 6, 8])
    sk = []
    for i in range(n):
        r = rng.random()
        if r < 0.3 or (i == 0 and rng.random() < 0.6):
            sk.append(('read', rng.choice(levels)))
        elif r < 0.78:
            sk.append(('edit',))
        else:
            sk.append((rng.choice(['reenc', 'copy'] + list(extra)),))
    sk.append(('read', rng.choice(levels)))
    return sk


def gen_seq_body(rng):
    import copy
    origin = rng.choice(['direct'] * 3 + ['decoded'] * 2 + ['builder'])
    c = {'k': 'seq', 'kind': 'body', 'origin': origin}
    if origin == 'builder':
        c['build'] = {'n_out': rng.choice([1, 2]), 'aux': rand_aux(rng) if rng.random() < 0.4 else None,
                      'ttl': rng.randrange(1000, 10 ** 7) if rng.random() < 0.6 else None}
        outs = None                                   # number and content of the outputs are the builder's business
    else:
        c['body'] = rand_body(rng)
        outs = copy.deepcopy(c['body']['outputs'])
    ops, model = [], []
    for sk in seq_skeleton(rng, [0, 1, 1, 1, 2, 2], extra=['rewrap', 'neutral']):
        if sk[0] != 'edit':
            ops.append(list(sk)); model.append(None)
            continue
        what = rng.choice(['set', 'set', 'set', 'del', 'append_output', 'append_input', 'coin', 'coin', 'out_replace'])
        if what in ('coin', 'out_replace') and not outs:
            what = 'set'
        if what == 'set':
            f = rng.choice(list(BODY_KEY))
            v, enc_ = body_field_value(rng, f)
            ops.append(['set', f, v]); model.append({'p': [], 'e': ['set', BODY_KEY[f], enc_.hex()]})
        elif what == 'del':
            f = rng.choice(BODY_OPTIONAL)
            ops.append(['del', f]); model.append({'p': [], 'e': ['del', BODY_KEY[f]]})
        elif what == 'append_output':
            o = rand_output(rng)
            if outs is not None:
                outs.append(copy.deepcopy(o))
            ops.append(['append_output', o]); model.append({'p': [['k', 1]], 'e': ['append', None]})
        elif what == 'append_input':
            t = rand_txin(rng)
            ops.append(['append_input', t]); model.append({'p': [['k', 0]], 'e': ['append', py_enc_txin(t).hex()]})
        elif what == 'coin':
            i = rng.randrange(len(outs))
            nc = max(0, outs[i]['value'][0] + rng.choice([-1, 1]) * rng.randrange(1, 20000))
            outs[i]['value'][0] = nc
            ops.append(['coin', i, nc, copy.deepcopy(outs[i])]); model.append({'p': [['k', 1], ['i', i]], 'e': ['put', None]})
        else:
            i = rng.randrange(len(outs))
            outs[i] = rand_output(rng)
            ops.append(['out_replace', i, copy.deepcopy(outs[i])]); model.append({'p': [['k', 1], ['i', i]], 'e': ['put', None]})
    c['ops'], c['model'] = ops, model
    return c


def gen_seq_aux(rng):
    a = rand_aux(rng)
    c = {'k': 'seq', 'kind': 'aux', 'origin': rng.choice(['direct', 'direct', 'decoded']), 'aux': a}
    era = a['era']
    labels = [l for l, _ in a['md']]
    has_md = era != 'alonzo' or a.get('md_present', True)
    has_ns = (era == 'allegra' and (bool(a['ns']) or a.get('ns_present'))) or (era == 'alonzo' and bool(a['ns']))
    md_path = {'shelley': [], 'allegra': [['i', 0]], 'alonzo': [['t'], ['k', 0]]}[era]
    ns_path = {'allegra': [['i', 1]], 'alonzo': [['t'], ['k', 1]]}.get(era)
    ops, model = [], []
    for sk in seq_skeleton(rng, [0]):
        if sk[0] != 'edit':
            ops.append(list(sk)); model.append(None)
            continue
        choices = (['md_set'] * 3 + (['md_del'] if labels else [])) if has_md else []
        choices += (['ns_append'] * 2 if has_ns else []) + (['ns_set'] if era == 'alonzo' else [])
        if not choices:
            ops.append(['read', 0]); model.append(None)
            continue
        what = rng.choice(choices)
        if what == 'md_set':
            l = rng.choice(labels + [rng.choice([0, 1, 674, 721, 2 ** 32, rng.randrange(10 ** 6)])])
            if l not in labels:
                labels.append(l)
            ops.append(['md_set', l, rand_md_val(rng, 1)]); model.append({'p': md_path, 'e': ['set', l, None]})
        elif what == 'md_del':
            l = rng.choice(labels); labels.remove(l)
            ops.append(['md_del', l]); model.append({'p': md_path, 'e': ['del', l]})
        elif what == 'ns_append':
            n = rand_native(rng, rng.choice([0, 1]))
            ops.append(['ns_append', n]); model.append({'p': ns_path, 'e': ['append', py_enc_native(n).hex()]})
        else:
            ns = [rand_native(rng, rng.choice([0, 1])) for _ in range(rng.choice([0, 1, 2]))]
            has_ns = True
            ops.append(['ns_set', ns])
            model.append({'p': [['t']], 'e': ['set', 1, (py_head(4, len(ns)) + b''.join(py_enc_native(x) for x in ns)).hex()]})
    c['ops'], c['model'] = ops, model
    return c


def _native_nodes(t, path=()):
    yield list(path), t
    subs = t[2] if t[0] == 'nofk' else t[1] if t[0] in ('all', 'any') else []
    for i, x in enumerate(subs):
        yield from _native_nodes(x, path + (i,))


def _native_cbor_path(t, path):
    p = []
    for i in path:
        p += [['i', 2 if t[0] == 'nofk' else 1], ['i', i]]
        t = (t[2] if t[0] == 'nofk' else t[1])[i]
    return p, t


def gen_seq_native(rng):
    import copy
    while True:
        s = rand_native(rng, rng.choice([1, 1, 2]))
        if s[0] in ('all', 'any', 'nofk') or rng.random() < 0.15:
            break
    c = {'k': 'seq', 'kind': 'native', 'origin': rng.choice(['direct', 'direct', 'decoded']), 's': copy.deepcopy(s)}
    ops, model = [], []
    for sk in seq_skeleton(rng, [0, 0, 1]):
        if sk[0] != 'edit':
            ops.append(list(sk)); model.append(None)
            continue
        path, _ = rng.choice(list(_native_nodes(s)))
        cp, node = _native_cbor_path(s, path)
        k = node[0]
        if k == 'pk':
            kh = rb(rng, 28)
            node[1] = kh.hex()
            ops.append(['n_set_kh', path, kh.hex()]); model.append({'p': cp + [['i', 1]], 'e': ['put', (py_head(2, 28) + kh).hex()]})
        elif k in ('before', 'after'):
            v = rand_nat(rng)
            node[1] = v
            ops.append(['n_set_slot', path, v]); model.append({'p': cp + [['i', 1]], 'e': ['put', py_head(0, v).hex()]})
        else:
            subs = node[2] if k == 'nofk' else node[1]
            li = 2 if k == 'nofk' else 1
            what = rng.choice(['append', 'append'] + (['child'] if subs else []) + (['n'] if k == 'nofk' else []))
            if what == 'append':
                x = rand_native(rng, rng.choice([0, 0, 1]))
                subs.append(copy.deepcopy(x))
                ops.append(['n_append', path, x]); model.append({'p': cp + [['i', li]], 'e': ['append', py_enc_native(x).hex()]})
            elif what == 'child':
                i = rng.randrange(len(subs))
                x = rand_native(rng, rng.choice([0, 0, 1]))
                subs[i] = copy.deepcopy(x)
                ops.append(['n_child', path, i, x]); model.append({'p': cp + [['i', li], ['i', i]], 'e': ['put', py_enc_native(x).hex()]})
            else:
                v = rng.choice([0, 1, 2, len(subs), rand_nat(rng)])
                node[1] = v
                ops.append(['n_set_n', path, v]); model.append({'p': cp + [['i', 1]], 'e': ['put', py_head(0, v).hex()]})
    c['ops'], c['model'] = ops, model
    return c


def gen_seq_datum(rng):
    top = rng.choice(['DA', 'DB', 'DC'])
    da = lambda: ['DA', rand_int_datum(rng), rb(rng, rng.choice([0, 5, 32, 64])).hex()]
    if top == 'DA':
        d = da()
        # CTag 121 (CAi [a; b])
        targets = [([], 'a', [['t'], ['i', 0]]), ([], 'b', [['t'], ['i', 1]])]
    elif top == 'DB':
        ks = sorted({rng.randrange(0, 40) for _ in range(rng.choice([0, 1, 2]))})
        d = ['DB', da(), [rand_int_datum(rng) for _ in range(rng.choice([0, 1, 3]))], [[kk, rb(rng, 3).hex()] for kk in ks]]
        # CTag 122 (CAi [x; l; d])
        targets = [(['x'], 'a', [['t'], ['i', 0], ['t'], ['i', 0]]), (['x'], 'b', [['t'], ['i', 0], ['t'], ['i', 1]])]
    else:
        d = ['DC', rand_int_datum(rng), da()]
        # CTag 102 (CA [CU 130; CAi [n; y]])
        targets = [([], 'n', [['t'], ['i', 1], ['i', 0]]), (['y'], 'a', [['t'], ['i', 1], ['i', 1], ['t'], ['i', 0]]),
                   (['y'], 'b', [['t'], ['i', 1], ['i', 1], ['t'], ['i', 1]])]
    c = {'k': 'seq', 'kind': 'datum', 'origin': rng.choice(['direct', 'direct', 'decoded']), 'd': d}
    ops, model = [], []
    for sk in seq_skeleton(rng, [0, 1]):
        if sk[0] != 'edit':
            ops.append(list(sk)); model.append(None)
            continue
        objp, f, cp = rng.choice(targets)
        if f == 'b':
            b = rb(rng, rng.choice([0, 1, 28, 32, 64]))
            ops.append(['d_set', objp, f, b.hex()]); model.append({'p': cp, 'e': ['put', (py_head(2, len(b)) + b).hex()]})
        else:
            v = rand_int_datum(rng)
            ops.append(['d_set', objp, f, v]); model.append({'p': cp, 'e': ['put', py_enc_simple(['int', v]).hex()]})
    c['ops'], c['model'] = ops, model
    return c


def gen_seq(rng):
    r = rng.random()
    return gen_seq_body(rng) if r < 0.55 else gen_seq_aux(rng) if r < 0.7 else gen_seq_native(rng) if r < 0.85 else gen_seq_datum(rng)


MIX = [('seq', 220), ('tx', 260), ('datum', 220), ('aux', 140), ('build', 70), ('outdatum', 60), ('key', 130), ('native', 170), ('plutus', 110),
       ('addr', 90), ('finger', 80), ('gate', 260)]


def gen_case(rng, kind):
    if kind == 'seq':
        return gen_seq(rng)
    if kind == 'tx':
        return {'k': 'tx', 'body': rand_body(rng), 'decoded': rng.random() < 0.4}
    if kind == 'datum':
        form, d = rand_datum(rng)
        return {'k': 'datum', 'form': form, 'd': d}
    if kind == 'aux':
        a = rand_aux(rng); a['k'] = 'aux'; a['decoded'] = rng.random() < 0.3
        return a
    if kind == 'build':
        return {'k': 'build', 'aux': rand_aux(rng) if rng.random() < 0.75 else None, 'n_out': rng.choice([1, 2])}
    if kind == 'outdatum':
        f1, d1 = rand_datum(rng)
        f2, d2 = rand_datum(rng)
        if rng.random() < 0.25:
            f2, d2 = 'objkeydict', [rng.choice([0, 1, 2 ** 40]), bytes(rng.getrandbits(8) for _ in range(rng.choice([0, 4, 28]))).hex(), rng.randrange(100)]
        return {'k': 'outdatum', 'route': rng.choice([0, 1, 1, 2, 2]), 'form1': f1, 'd1': d1, 'form2': f2, 'd2': d2}
    if kind == 'key':
        return gen_key(rng)
    if kind == 'native':
        return {'k': 'native', 's': rand_native(rng, rng.choice([0, 1, 2, 3, 3]))}
    if kind == 'plutus':
        return {'k': 'plutus', 'v': rng.choice([1, 2, 3]), 'sb': rand_plutus_bytes(rng).hex()}
    if kind == 'addr':
        st = rng.choice([None, None, ['key', rb(rng, 28).hex()], ['script', rb(rng, 28).hex()],
                         ['ptr', [rng.randrange(10 ** 6), rng.randrange(300), rng.randrange(5)]]])
        return {'k': 'addr', 'script': rand_script(rng, raw=True), 'net': rng.choice([0, 1]), 'stake': st}
    if kind == 'finger':
        return {'k': 'finger', 'p': rb(rng, 28).hex(), 'n': rb(rng, rng.choice([0, 1, 3, 8, 16, 31, 32])).hex(),
                'form': rng.choice(['obj', 'bytes', 'hex'])}
    if kind == 'gate':
        return gen_gate(rng)
    raise ValueError(kind)


def corpus_cases():
    p = os.path.join(C.VERIF, 'corpus', 'C17.json')
    return json.load(open(p))['cases'] if os.path.exists(p) else []


def gen_cases(ctx, n):
    total = sum(w for _, w in MIX)
    cases = []
    for kind, w in MIX:
        for _ in range(max(1, n * w // total)):
            cases.append(gen_case(ctx.rng, kind))
    ctx.rng.shuffle(cases)
    return [dict(c) for c in corpus_cases()] + cases


# ================================================================ rendering
def hx(h):
    """bytes literal as a list of Init.Byte constructors (elaborates ~3x faster than (hx "..") string literals)"""
    return '[' + ';'.join('x' + h[i:i + 2] for i in range(0, len(h), 2)) + ']'



def r_native(t):
    k = t[0]
    if k == 'pk':
        return f'(NPubkey {hx(t[1])})'
    if k in ('all', 'any'):
        return f'({"NAll" if k == "all" else "NAny"} {C.clist([r_native(x) for x in t[1]])})'
    if k == 'nofk':
        return f'(NNofK {C.cn(t[1])} {C.clist([r_native(x) for x in t[2]])})'
    return f'({"NBefore" if k == "before" else "NAfter"} {C.cn(t[1])})'


def r_mscript(d):
    if d[0] == 'native':
        return f'(MNative {r_native(d[1])})'
    if d[0] == 'plutus':
        return f'(MPlutus V{d[1]} {hx(d[2])})'
    return f'(MRaw {hx(d[1])})'


def r_stake(st, stake_hex=None):
    if st is None:
        return 'StNone'
    return {'key': 'StKey', 'script': 'StScript', 'ptr': 'StPointer'}[st[0]] + ' ' + hx(stake_hex if st[0] == 'ptr' else st[1])


def r_tab(entries):
    return C.clist([f'({C.cnat(n)}, {hx(m.hex())}, {hx(b2(n, m).hex())})' for n, m in sorted(entries)])


def table_and_case(c, r, g):
    """returns (set of (size, message), Coq icase literal)"""
    k = c['k']
    T = set()
    fb = bytes.fromhex
    if k == 'seq':
        return None, seq_case(c, r, g)
    if k == 'tx':
        for sl in top_items(fb(r['tx']))[:1] + [fb(r['body'])]:
            T.add((32, sl)); T.add((g['tx_size'], sl))
        lit = f'KTx {hx(r["tx"])} {hx(r["body"])} {hx(r["id_body"])} {C.clist([hx(r["id_tx"]), hx(r["id_hash"])])}'
    elif k == 'datum':
        ws, out = fb(r['ws']), fb(r['out'])
        cand = [fb(r['direct'])] if r['direct'] else []
        if ws[:2] == b'\xa1\x04':                      # {4: [d]} or {4: 258([d])}
            v = ws[2:]
            cand += top_items(v[3:] if v[:3] == b'\xd9\x01\x02' else v)[:1]
        i = out.find(b'\xd8\x18')                      # #6.24(bytes): the inline datum
        while i >= 0:
            try:
                e = item_end(out, i + 2)
                hl = 1 + {24: 1, 25: 2, 26: 4, 27: 8}.get(out[i + 2] & 31, 0)
                if out[i + 2] >> 5 == 2:
                    cand.append(out[i + 2 + hl:e])
            except Exception:
                pass
            i = out.find(b'\xd8\x18', i + 1)
        for sl in cand:
            T.add((32, sl)); T.add((g['datum_size'], sl))
        lit = (f'KDatum {C.cbool(c["form"] != "rawbytes")} {hx(r["ws"])} {hx(r["out"])} '
               f'{C.copt(hx(r["direct"]) if r["direct"] else None)} {hx(r["id"])}')
    elif k == 'aux':
        for sl in top_items(fb(r['tx']))[3:] + [fb(r['direct'])]:
            T.add((32, sl)); T.add((g['aux_size'], sl))
        lit = f'KAux {hx(r["tx"])} {hx(r["direct"])} {hx(r["id"])}'
    elif k == 'build':
        its = top_items(fb(r['tx']))
        for sl in [s for s in its[3:] if s != b'\xf6'] + ([fb(r['aux_in'])] if r['aux_in'] else []):
            T.add((32, sl)); T.add((g['aux_size'], sl))
        for sl in its[:1]:
            T.add((32, sl)); T.add((g['tx_size'], sl))
        lit = f'KBuild {C.copt(hx(r["aux_in"]) if r["aux_in"] else None)} {hx(r["tx"])} {hx(r["id_tx"])}'
    elif k == 'outdatum':
        wd = first_witness_datum(fb(r['tx']))
        if wd is None or r.get('d2') is None:
            raise ValueError('outdatum: no datum in the witness set / datum without to_cbor')
        T.add((32, wd))
        lit = f'KOutDatum {hx(r["tx"])} {hx(wd.hex())} {hx(r["d2"])}'
    elif k == 'key':
        p, nx = fb(r['payload']), fb(r['nx_payload'])
        for m in (p, p[:32], p[:g['ext_cut']], nx, nx[:32]):
            T.add((28, m)); T.add((g['key_size'], m))
        lit = (f'KKey {C.cbool(r["ext"])} {hx(r["payload"])} {hx(r["cb"])} {hx(r["id"])} '
               f'{hx(r["nx_payload"])} {hx(r["nx_id"])} '
               f'{C.clist([hx(x) for x in (r["via_sk"], r["id_restored"]) if x is not None])}')
    elif k == 'native':
        T |= script_msgs(['native', c['s']], g, extra_bytes=[fb(r['cb'])])
        lit = (f'KNative {r_native(c["s"])} {hx(r["cb"])} {hx(r["id"])} {hx(r["id_sh"])} '
               f'{hx(r["ws"])} {hx(r["out"])} {hx(r["ma"])}')
    elif k == 'plutus':
        T |= script_msgs(['plutus', c['v'], c['sb']], g)
        lit = (f'KPlutus V{c["v"]} {hx(c["sb"])} {hx(r["id"])} {hx(r["id_psh"])} {hx(r["id_raw"])} '
               f'{hx(r["ws"])} {hx(r["out"])} {hx(r["ma"])}')
    elif k == 'addr':
        T |= script_msgs(c['script'], g)
        lit = (f'KAddr {r_mscript(c["script"])} {C.cn(c["net"])} ({r_stake(c["stake"], r["stake_bytes"])}) '
               f'{hx(r["addr"])} {C.cstr(r["bech"] or "")}')
    elif k == 'finger':
        p, n = fb(c['p']), fb(c['n'])
        for m in (p + n, n + p):
            T.add((20, m)); T.add((g['fp_size'], m))
        lit = f'KFinger {hx(c["p"])} {hx(c["n"])} {C.cstr(r["fp"] or "")}'
    elif k == 'gate':
        for d in c['scripts']:
            T |= script_msgs(d, g)
        dat = None
        for dd in (c.get('datum'),):
            if dd is not None:
                e = py_enc_simple(dd[1]); dat = e.hex()
                T.add((32, e)); T.add((g['datum_size'], e))
        ms = lambda i: 'None' if i is None else f'(Some {r_mscript(c["scripts"][i])})'
        u = (f'{{| i_id := {C.cn(c["id"])}; i_script_addr := {C.cbool(c["addr_script"])}; i_pay := {hx(c["pay"])}; '
             f'i_script := {ms(c.get("own"))}; i_datum_hash := {C.copt(hx(c["datum_hash"]) if c.get("datum_hash") else None)}; '
             f'i_inline_datum := {C.cbool(c.get("inline") is not None)} |}}')
        off = c.get('offer')
        if off is None:
            o = 'OffNone'
        elif off[0] == 'script':
            o = f'(OffScript {r_mscript(c["scripts"][off[1]])})'
        else:
            o = f'(OffRef {{| r_id := {C.cn(off[1]["id"])}; r_script := {ms(off[1]["script"])} |}})'
        cx = C.clist([f'{{| r_id := {C.cn(x["id"])}; r_script := {ms(x["script"])} |}}' for x in c['ctx']])
        res = r['res']
        if res[0] == 'accept':
            if res[1] is None:
                raise RuntimeError('gate: recorded script is none of the case scripts')
            rs = f'(GAccept {r_mscript(c["scripts"][res[1]])} {C.copt(C.cn(res[2]) if res[2] is not None else None)})'
        else:
            rs = 'GRefuse'
        lit = f'KGate {u} {o} {C.copt(hx(dat) if dat is not None else None)} {cx} {rs}'
    else:
        raise ValueError(k)
    return T, lit



# ---------------------------------------------------------------- operation sequences
QKIND = {'body': 'QBody', 'aux': 'QAux', 'datum': 'QDatum', 'native': 'QNative'}


def seq_cut_py(kind, cont):
    """own cutter: the bytes of the object inside the shipped container (None when the container has another shape)"""
    try:
        if kind in ('body', 'aux'):
            its = top_items(cont)
            return its[0] if kind == 'body' else (its[3] if len(its) == 4 else None)
        if cont[:1] != b'\xa1' or cont[1] != (1 if kind == 'native' else 4):
            return None
        i = 2
        if cont[i:i + 3] == b'\xd9\x01\x02':
            i += 3
        if cont[i] != 0x81:
            return None
        e = item_end(cont, i + 1)
        return bytes(cont[i + 1:e]) if e == len(cont) else None
    except Exception:
        return None


def r_path(p):
    return C.clist([f'PKey {C.cn(x[1])}' if x[0] == 'k' else f'PIdx {C.cnat(x[1])}' if x[0] == 'i' else 'PTag' for x in p])


def seq_case(c, r, g):
    """the whole `(tab, KSeq ...)` Coq expression of a sequence case.  Byte strings that occur several times (the
    serializations of the successive states) are let-bound once and referred to by name; a shipped container is written
    as  prefix ++ <state> ++ suffix  when (checked here) it contains the current serialization, literally otherwise."""
    kind = c['kind']
    fb = bytes.fromhex
    spec_n, spec_pre = (28, b'\x00') if kind == 'native' else (32, b'')
    g_n, g_pre = {'body': (g['tx_size'], b''), 'aux': (g['aux_size'], b''), 'datum': (g['datum_size'], b''),
                  'native': (g['nscript_size'], g['pref_native'])}[kind]
    names, order = {}, []

    def blob(b):
        b = bytes(b)
        if b not in names:
            names[b] = f'b{len(order)}'; order.append(b)
        return names[b]

    def lit(b):
        return hx(bytes(b).hex())

    cur = fb(r['init'])
    init_name = blob(cur)
    steps = []
    for o, m, st in zip(c['ops'], c['model'], r['steps']):
        after = fb(st['after'])
        if o[0] == 'read':
            cont = fb(st['cont'])
            sl = seq_cut_py(kind, cont)
            if sl is not None:
                blob(sl)
            i = cont.find(cur)
            ce = lit(cont) if i < 0 else f'({lit(cont[:i])} ++ {blob(cur)} ++ {lit(cont[i + len(cur):])})%list'
            steps.append(f'SRead {C.cnat(o[1])} {ce} {lit(fb(st["obs"]))}')
        elif o[0] in ('reenc', 'copy', 'rewrap', 'neutral'):
            steps.append({'reenc': 'SReenc', 'copy': 'SCopy', 'rewrap': 'SRewrap', 'neutral': 'SNeutral'}[o[0]] + ' ' + blob(after))
        else:
            e = m['e']
            val = (e[-1] if e[-1] is not None else st['val']) if e[0] != 'del' else None
            be = {'set': lambda: f'BSet {C.cn(e[1])} {lit(fb(val))}', 'del': lambda: f'BDel {C.cn(e[1])}',
                  'append': lambda: f'BAppend {lit(fb(val))}', 'put': lambda: f'BPut {lit(fb(val))}'}[e[0]]()
            steps.append(f'SEdit {r_path(m["p"])} ({be}) {blob(after)}')
        cur = after
    tab = []
    for b in order:
        for n, pre in {(spec_n, spec_pre), (g_n, g_pre)}:
            msg = names[b] if not pre else f'({lit(pre)} ++ {names[b]})%list'
            tab.append(f'({C.cnat(n)}, {msg}, {lit(b2(n, pre + b))})')
    lets = ''.join(f'let {names[b]} := {lit(b)} in ' for b in order)
    return f'({lets}({C.clist(tab)}, KSeq {QKIND[kind]} {init_name} {C.clist(steps)}))'


def seq_stats(cases, results):
    """what the generated sequences exercised (for the evidence)"""
    st = {'ops': {}, 'read_edit_read': 0, 'reenc_changed_bytes': 0, 'copy_changed_bytes': 0, 'copy_total': 0,
          'reenc_total': 0, 'by_kind': {}, 'by_origin': {}, 'reads': 0, 'length_hist': {}}
    for c, r in zip(cases, results):
        if c['k'] != 'seq' or 'steps' not in r:
            continue
        st['by_kind'][c['kind']] = st['by_kind'].get(c['kind'], 0) + 1
        st['by_origin'][c['origin']] = st['by_origin'].get(c['origin'], 0) + 1
        st['length_hist'][len(c['ops'])] = st['length_hist'].get(len(c['ops']), 0) + 1
        cur, seen_read, changed_since = r['init'], False, False
        rer = False
        for o, s_ in zip(c['ops'], r['steps']):
            st['ops'][o[0]] = st['ops'].get(o[0], 0) + 1
            if o[0] == 'read':
                st['reads'] += 1
                if seen_read and changed_since:
                    rer = True
                seen_read = True
            else:
                if o[0] in ('reenc', 'copy'):
                    st[o[0] + '_total'] += 1
                    if s_['after'] != cur:
                        st[o[0] + '_changed_bytes'] += 1
                if s_['after'] != cur:
                    changed_since = True
            cur = s_['after']
        st['read_edit_read'] += rer
    return st


HEADER = '''From Coq Require Import ZArith NArith List String.
From Coq Require Import Init.Byte.
From PyC Require Import Base Cbor Ids IdsSeq IdsOracle.
Import ListNotations.
Open Scope string_scope.
'''


def render(items):
    body = 'Definition cases : list (nat * (tab * icase)) :=\n' + C.clist(items) + '.\n'
    body += ('Definition verdicts := Eval vm_compute in '
             '(map (fun c => (fst c, (c17_corr (snd c), c17_oracle (snd c), c17_missing (snd c)))) cases).\n')
    body += 'Eval vm_compute in (map fst (filter (fun v => negb (fst (fst (snd v)))) verdicts)).\n'
    body += 'Eval vm_compute in (map fst (filter (fun v => negb (snd (fst (snd v)))) verdicts)).\n'
    body += 'Eval vm_compute in (map fst (filter (fun v => snd (snd v)) verdicts)).\n'
    return body


def skip_reason(c, r):
    """cases that are outside this property (recorded in a histogram, not evaluated)"""
    if 'decode_err' in r:
        return 'decode-error(C01/C03)'
    if c['k'] == 'seq' and 'seq_err' in r:
        # documented exclusions; any other exception in the middle of a sequence fails the run (see evaluate)
        if r['op'] == 'reenc' or (r['op'] == 'init' and c['origin'] == 'decoded'):
            return 'seq:decode-error(C01/C03)'
        if r['op'] == 'init' and c['origin'] == 'builder':
            return 'seq:build-error:' + r['seq_err']
        if r.get('copied') and r['seq_err'] == 'ValueError' and 'NonEmptyOrderedSet cannot be empty' in r.get('detail', ''):
            return 'seq:copy-defect(OrderedSet)'      # copy.deepcopy drops the elements of an OrderedSet (reported)
        return None
    if c['k'] in ('build', 'outdatum') and 'err' in r:
        return 'build-error:' + r['err']
    return None


def evaluate(cases, results, g, shard=None):
    mism, ofail, errs, missing, skipped = set(), set(), [], set(), {}
    lits = []
    for i, (c, r) in enumerate(zip(cases, results)):
        sr = skip_reason(c, r)
        if 'driver_error' in r or ('seq_err' in r and not sr):
            mism.add(i); ofail.add(i)
            continue
        if sr:
            skipped[sr] = skipped.get(sr, 0) + 1
            continue
        if c['k'] == 'gate' and c['pay'] != r['pay']:
            raise RuntimeError('gate: the driver did not use the payment credential of the case')
        T, lit = table_and_case(c, r, g)
        lits.append((i, lit if T is None else f'({r_tab(T)}, {lit})'))
    shards, maps = [], []
    shard = shard or max(30, min(150, -(-len(lits) // C.NPROC)))
    for k in range(0, len(lits), shard):
        part = lits[k:k + shard]
        shards.append(render([f'({j}%nat, {l})' for j, (_, l) in enumerate(part)]))
        maps.append([i for i, _ in part])
    for (ok, lists, log), mp in zip(C.run_cases(PID, shards, HEADER), maps):
        if not ok or len(lists) != 3:
            errs.append(log[-1500:])
            continue
        mism.update(mp[j] for j in lists[0]); ofail.update(mp[j] for j in lists[1]); missing.update(mp[j] for j in lists[2])
    return mism, ofail, missing, errs, skipped


def classify(c, r):
    if 'driver_error' in r or 'seq_err' in r:
        return c['k'] + ':exception'
    if c['k'] == 'seq':
        return 'seq:' + c['kind']
    if c['k'] == 'gate':
        return 'gate:' + r['res'][0]
    if c['k'] == 'tx':
        return 'tx:decoded' if c.get('decoded') else 'tx:built'
    if c['k'] == 'datum':
        return 'datum:' + c['form']
    if c['k'] == 'aux':
        return 'aux:' + c['era']
    if c['k'] == 'key':
        return 'key:' + ('extended' if 'Extended' in c['cls'] else 'plain')
    if c['k'] == 'plutus':
        return f'plutus:v{c["v"]}'
    return c['k']


def nontrivial(c, r):
    if 'driver_error' in r or 'seq_err' in r or skip_reason(c, r):
        return False
    if c['k'] == 'seq':
        return any(o[0] == 'read' for o in c['ops'])
    return True


def correspond(ctx, n=None):
    g = getattr(ctx, 'gen', None)
    if g is None:
        try:
            _, _, g, _ = extract()
        except Exception:
            g = dict(SPEC_FULL)     # translator failed (reported by check.py); tables for the specified constants only
    n = n or ctx.n(1750, 34000)
    cases = gen_cases(ctx, n)
    results = C.run_impl('ids_driver', {'cases': cases})
    mism, ofail, missing, errs, skipped = evaluate(cases, results, g)
    if errs:
        raise RuntimeError('cases file failed to compile: ' + errs[0])
    if missing:
        i = sorted(missing)[0]
        raise RuntimeError(f'BLAKE2b table entry missing for {len(missing)} case(s); first: {json.dumps(cases[i])[:600]}')
    hist, regions = {}, {}
    for c, r in zip(cases, results):
        hist[c['k']] = hist.get(c['k'], 0) + 1
        reg = classify(c, r); regions[reg] = regions.get(reg, 0) + 1
    gate_hist = {}
    for c, r in zip(cases, results):
        if c['k'] == 'gate' and 'res' in r:
            right = None
            key = r['res'][0] + ('' if r['res'][0] == 'refuse' else (':ref' if r['res'][2] is not None else ':direct'))
            gate_hist[key] = gate_hist.get(key, 0) + 1
    same = {}
    for c, r in zip(cases, results):
        if c['k'] == 'tx' and c.get('decoded') and 'same_bytes' in r:
            same[str(r['same_bytes'])] = same.get(str(r['same_bytes']), 0) + 1
    distinct = len({C.canon_hash(c) for c, r in zip(cases, results) if nontrivial(c, r)})

    def pack(i):
        return {'input': cases[i], 'impl': results[i], 'region': classify(cases[i], results[i])}
    of = [pack(i) for i in sorted(ofail)]
    known_local = [f for f in of if f['region'] in KNOWN_REGIONS]
    of = [f for f in of if f['region'] not in KNOWN_REGIONS]
    return dict(
        evaluations=len(cases), distinct_nontrivial=distinct,
        rule='one case = one real object (or builder call) of a kind in {tx body built / decoded, datum typed/raw/primitive/'
             'RawCBOR, auxiliary data of three eras (plain / decoded), build_and_sign with and without auxiliary data, '
             'ordinary and extended verification keys of every class (from bytes / from a signing key), nested native script, '
             'Plutus V1/V2/V3 script (+ plain bytes), script address on both networks with every staking part, CIP-14 '
             'fingerprint in three argument forms, add_script_input with right / wrong-language / one-bit-flipped / '
             'native-vs-Plutus-same-bytes offers through the own-script, argument, reference-UTxO and chain-context paths '
             'with and without datum; a LIFE of one object (seq): transaction body inside a transaction (built directly / decoded '
             '/ by TransactionBuilder), auxiliary data of three eras, nested native script, typed datum, through 3-9 operations '
             'drawn from {read via each accessor, set / delete keyed field, append output / input, adjust a coin in place, replace '
             'an output, metadata label set / delete, native scripts appended / attached, native-script node edits, datum field '
             'assignment, re-encode, deep copy, re-wrap, re-sign}, always ending with a read}; non-trivial = the library returned an '
             'identifier (or a gate decision) that was compared inside coqc (seq: at least one read); distinct by hash of the case',
        samples=[cases[0], cases[len(cases) // 2]],
        kind_histogram=hist, region_histogram=regions, gate_outcomes=gate_hist, decoded_tx_same_bytes=same,
        sequences=seq_stats(cases, results),
        skipped=skipped, reported_regions_seen=sorted({f['region'] for f in known_local}),
        regenerated_constants={k: (v.hex() if isinstance(v, bytes) else v) for k, v in g.items()},
        compared='oracle: library identifier = specified digest (table lookup) of the bytes cut from the library\'s own '
                 'serialization (tx array, witness set, outputs, multi-asset key), gate decision sound w.r.t. the specified '
                 'script hash, body.auxiliary_data_hash = digest of the 4th element of the signed transaction; '
                 'correspondence: the same with the model over the regenerated constants, model encoder = library bytes, '
                 'model gate decision (incl. recorded script and reference input) = library decision; sequences: oracle = every '
                 'identifier read equals the specified digest of the object bytes cut from the container shipped at that moment; '
                 'correspondence = state machine (regenerated memoisation flags) gives the same serialization after every step and '
                 'the same answer at every read',
        mismatches=[pack(i) for i in sorted(mism)[:20]],
        oracle_fail=of[:50],
    )


def search(ctx, mism):
    ctx.rng.seed(f'search-{ctx.seed}')
    r = correspond(ctx, 4000 if ctx.quick else 40000)
    return r['oracle_fail'][0] if r['oracle_fail'] else None


def replay(ctx, rep):
    case = rep['case']['input']
    try:
        _, _, g, errs_ = extract()
        if errs_:
            print('translator:', errs_)
    except Exception as e:
        print('translator:', e); g = dict(SPEC_FULL)
    res = C.run_impl('ids_driver', {'cases': [case]}, nshards=1)
    mism, ofail, missing, errs, skipped = evaluate([case], res, g)
    print('input:', json.dumps(case))
    print('implementation:', json.dumps(res[0]))
    if errs:
        print(errs[0]); return 2
    print('model agrees:', 0 not in mism, ' property oracle holds:', 0 not in ofail, ' table complete:', 0 not in missing)
    return 1 if ofail else 0
