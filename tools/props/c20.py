"""C20 — chain-context adapters report UTxOs faithfully (Blockfrost, Ogmios v5, Ogmios v6, Kupo, cardano-cli).

Pipeline of one run (after the proofs are rebuilt by check.py):
  1. generate UTxO models (this module, seeded);
  2. pass 1 (coqc, vm_compute): `render_X` of Adapters.v turns every model into the service's documents and
     `json_to_string` into JSON TEXT — the text served to the adapters is produced by the Coq specification side;
  3. tools/impl/adapters_driver.py runs the REAL adapter (`utxos(address)`) with only the transport stubbed;
  4. pass 2 (coqc, vm_compute): `c20_corr`  = parse_X (render_X u) equals the adapter's output (exact: structure,
     insertion order, exception kind) and `c20_oracle` = the decision procedure of the property (faithfulb, proved
     sound for `faithful_any`) on the ADAPTER's output against the generated model."""
import hashlib, json, os, re, subprocess, time
from lib import common as C
from lib.common import cz, cn, chx, cbool, cstr, clist, cpair, copt

PID = 'C20'
TARGETS = ['props/C20.vo', 'theories/AdaptersOracle.vo']
LEVEL = 'proof'

MANIFEST = dict(
    text='Theorems (Coq, unbounded in the number of UTxOs/policies/assets, names of 0..32 bytes, any N quantities): for each of '
         'Blockfrost, Ogmios v5, Ogmios v6, Kupo, cardano-cli, parse_X (render_X us) = Ok outs with every out faithful to its '
         'UTxO: same tx ref, address, lovelace, exactly the same quantity for every (policy, name), exactly the same key set, '
         'well-formed dicts, datum hash / inline datum / reference script as the service reports them; helper lemmas hex round '
         'trip, 56-character unit split, policy.name split; two _refuted lemmas for the known findings (unsupported reference '
         'script kinds; cardano-cli inline datums with non-int/bytes or repeated map keys). The JSON text '
         'served to the real adapters is computed by the Coq render_X; model = adapter output exactly on every case; the '
         'proved-sound oracle runs on the adapter outputs.',
    note='Trusted: Coq kernel+vm_compute; render_X as transcription of the service documentation; hand model parse_X tied by exact '
         'correspondence; json.loads; stub transports; generator. Address text -> Address is opaque (C15). No axioms.',
    technique='Coq proof (fold invariants over dict insertion, permutation-invariant content, nested-inductive round trips for '
              'native scripts and Plutus data JSON) + correspondence through Coq-rendered JSON text', ref='C20')
TRUSTED = [
    'Coq 8.16.1 kernel incl. vm_compute (no native_compute); no axioms (see Print Assumptions lines)',
    'coq/theories/Adapters.v render_X = the documented JSON shapes (Blockfrost OpenAPI, Ogmios v5.6 / v6 schemas, Kupo API, '
    'cardano-api TxOut/ScriptInAnyLang ToJSON), written from documentation knowledge (services are not reachable offline)',
    'coq/theories/Adapters.v parse_X = hand model of the adapters, tied by exact correspondence on every generated case '
    '(returned structure incl. dict insertion order, exception kind)',
    'Python json.loads on the Coq-produced text (object keys unique and characters plain: json_ok checked per case in Coq); '
    'blockfrost-python and ogmios-python response handling runs for real',
    'tools/impl/adapters_driver.py (stub transports, attribute-walk dump), tools/props/c20.py (generator, literal printer, '
    'parser of the Coq-printed text, standalone bech32 decoder for the address pool)',
    'blake2b-224 enters the model as a function parameter; per case it is the finite table of hashlib digests of the script '
    'bytes involved',
]
ASSUMPTIONS = [
    'regions carved out by decidable premises and refuted in Coq (known findings): script_supported (native reference scripts on '
    'Ogmios v5/v6, Kupo, cardano-cli; PlutusV3 on cardano-cli) and wf_pdata for cardano-cli inline datums (map keys ints/bytes, '
    'pairwise distinct); a failing case gets a region tag only if the faithful model predicts the adapter output exactly',
    'Address.from_primitive(text) is opaque in the model (the text is carried); the returned Address is compared by its '
    're-encoded text and by its raw bytes against an address pool decoded by an independent bech32 decoder',
    'Blockfrost pagination (>= 100 UTxOs per page), HTTP error paths, caches (TTL/LRU) and spent Kupo matches are outside the model',
    'for cardano-cli the inline datum is compared as a VALUE (structure built by RawPlutusData.from_dict); its byte encoding is C18',
    'int()/bytes.fromhex() are modelled on the text the services emit (decimal digits, hex without whitespace)',
]

SVCS = ['blockfrost', 'ogmios_v5', 'ogmios_v6', 'kupo', 'cli']
COQ_SVC = {'blockfrost': 'Blockfrost', 'ogmios_v5': 'OgmiosV5', 'ogmios_v6': 'OgmiosV6', 'kupo': 'Kupo', 'cli': 'Cli'}
REGION = 'script_unsupported'
REGION_DATUM = 'cli_datum_map_key'

HEADER0 = '''From Coq Require Import Uint63.
From Coq Require Import NArith ZArith Ascii String List Bool.
From Coq Require Import Init.Byte.
From PyC Require Import Base Cbor Dict Value Json Adapters AdaptersOracle.
Import ListNotations.
Open Scope string_scope.
Open Scope list_scope.
'''

# ---------------------------------------------------------------- address pool (text, raw bytes)
# produced once with adapters_driver.make_addresses(); the bytes are re-derived here by an independent bech32 decoder
ADDRESSES = [
    'addr_test1qqxk54m7j3q6mrkevcunryrwf4p7e68c93cjk8gzxkhlkp48eprlu7jd0nze39lrg9rdggzdcu420wecqg3gxfxnkm0qptq7zg',
    'addr_test1vqxk54m7j3q6mrkevcunryrwf4p7e68c93cjk8gzxkhlkpsffv7s0',
    'addr1qyqgk3uyfkfgzt7rp50s4jdkl0ecw7xvh2wmsvf2myreq7f9w9pdf4necmp943yj06ezp2r05qlqkp7qf4p3p9s7e8kqu336lx',
    'addr1vyqgk3uyfkfgzt7rp50s4jdkl0ecw7xvh2wmsvf2myreq7gd27kn4',
    'addr1x8nz307k3sr60gu0e47cmajssy4fmld7u493a4xztjrll0aj764lvrxdayh2ux30fl0ktuh27csgmpevdu89jlxppvrswgxsta',
]
_B32 = 'qpzry9x8gf2tvdw0s3jn54khce6mua7l'


def bech32_bytes(text):
    hrp, data = text.rsplit('1', 1)
    vals = [_B32.index(c) for c in data]
    chk = 1
    for v in [ord(c) >> 5 for c in hrp] + [0] + [ord(c) & 31 for c in hrp] + vals:
        b = chk >> 25
        chk = ((chk & 0x1ffffff) << 5) ^ v
        for i, g in enumerate((0x3b6a57b2, 0x26508e6d, 0x1ea119fa, 0x3d4233dd, 0x2a1462b3)):
            if (b >> i) & 1:
                chk ^= g
    assert chk == 1, 'bad bech32 checksum in the address pool'
    acc = bits = 0
    out = bytearray()
    for v in vals[:-6]:
        acc = (acc << 5) | v
        bits += 5
        while bits >= 8:
            bits -= 8
            out.append((acc >> bits) & 0xff)
    assert (acc & ((1 << bits) - 1)) == 0 and bits < 5
    return bytes(out)


ADDR_BYTES = {a: bech32_bytes(a).hex() for a in ADDRESSES}
HEADER = HEADER0 + 'Definition addr_pool : list string := ' + clist([cstr(a) for a in ADDRESSES]) + '.\n' \
    + 'Definition addr_at (k : nat) : string := nth k addr_pool "".\n'

# ---------------------------------------------------------------- generator
NAMES = [b'', b'', b'\x00', b'a', b'lovelace', b'6c6f76656c616365', b'.', b'#', b'ada', b'dead', b'DEADBEEF', b'00',
         b'\xff', b'tok', b'a' * 31, b'a' * 32, b'\xff' * 32, b'\x00' * 32, b'0' * 32, b'n.ft', b'1']
QTY = [0, 1, 1, 1, 2, 7, 255, 256, 10**6, 2**31, 2**32, 2**53, 2**53 + 1, 2**63 - 1, 2**63, 2**63 + 1, 2**64 - 1, 2**64,
       2**64 + 1, 10**19, 10**20, 2**70, 45 * 10**15, 999999999999999999]
LOVELACE = [0, 1, 857690, 1000000, 2**32, 45 * 10**15, 2**63 - 1, 2**63, 2**64, 2**64 + 1, 10**20, 708864940]
INDEX = [0, 0, 1, 2, 3, 7, 255, 256, 65535, 2**32]


def rbytes(rng, n):
    return bytes(rng.getrandbits(8) for _ in range(n))


def gen_assets(rng):
    r = rng.random()
    if r < 0.18:
        return []
    npol = rng.randint(1, 4)
    total = rng.randint(npol, 8)
    base = [bytes([1]) * 28, bytes([0xaa]) * 28, b'\x00' * 28, b'\xff' * 28, bytes(range(28))]
    pols = []
    while len(pols) < npol:
        p = rng.choice(base) if rng.random() < 0.4 else rbytes(rng, 28)
        if p not in pols:
            pols.append(p)
    counts = [1] * npol
    for _ in range(total - npol):
        counts[rng.randrange(npol)] += 1
    out = []
    for p, k in zip(pols, counts):
        names = []
        while len(names) < k:
            n = rng.choice(NAMES) if rng.random() < 0.7 else rbytes(rng, rng.randint(0, 32))
            if n not in names:
                names.append(n)
        out.append([p.hex(), [[n.hex(), rng.choice(QTY)] for n in names]])
    return out


def gen_pdata(rng, depth):
    k = rng.choice(['int', 'bytes', 'constr', 'list', 'map'] if depth > 0 else ['int', 'bytes', 'constr0'])
    if k == 'int':
        return ['int', rng.choice([0, 1, -1, 23, 24, -25, 2**32, 2**64 - 1, 2**64, -2**64, -2**64 - 1, 10**30])]
    if k == 'bytes':
        return ['bytes', rbytes(rng, rng.choice([0, 1, 28, 31, 32, 33, 64, 65, 100])).hex()]
    if k == 'constr0':
        return ['constr', rng.choice([0, 1, 6, 7, 127, 128, 1000]), []]
    if k == 'constr':
        return ['constr', rng.choice([0, 0, 1, 2, 6, 7, 8, 127, 128, 129, 2**32]),
                [gen_pdata(rng, depth - 1) for _ in range(rng.randint(0, 3))]]
    if k == 'list':
        return ['list', [gen_pdata(rng, depth - 1) for _ in range(rng.randint(0, 3))]]
    keys, kvs = [], []
    for _ in range(rng.randint(0, 3)):
        key = ['int', rng.randint(-3, 5)] if rng.random() < 0.5 else ['bytes', rbytes(rng, rng.choice([0, 1, 2, 28, 40])).hex()]
        if key not in keys:
            keys.append(key)
            kvs.append([key, gen_pdata(rng, depth - 1)])
    return ['map', kvs]


def cbor_head(major, n):
    if n < 24:
        return bytes([major * 32 + n])
    for ai, size in ((24, 1), (25, 2), (26, 4), (27, 8)):
        if n < 1 << (8 * size):
            return bytes([major * 32 + ai]) + n.to_bytes(size, 'big')
    raise ValueError(n)


def cbor_int(z):
    if 0 <= z < 2**64:
        return cbor_head(0, z)
    if -2**64 <= z < 0:
        return cbor_head(1, -1 - z)
    mag = z if z >= 0 else -1 - z
    return cbor_head(6, 2 if z >= 0 else 3) + cbor_bytes(mag.to_bytes((mag.bit_length() + 7) // 8, 'big'))


def cbor_bytes(b):
    if len(b) <= 64:
        return cbor_head(2, len(b)) + b
    return b'\x5f' + b''.join(cbor_head(2, len(b[i:i + 64])) + b[i:i + 64] for i in range(0, len(b), 64)) + b'\xff'


def pdata_cbor(d):
    """A ledger-style encoding of the datum (opaque to every adapter; only carried as bytes)."""
    k = d[0]
    if k == 'int':
        return cbor_int(d[1])
    if k == 'bytes':
        return cbor_bytes(bytes.fromhex(d[1]))
    if k == 'list':
        return (b'\x9f' + b''.join(map(pdata_cbor, d[1])) + b'\xff') if d[1] else b'\x80'
    if k == 'map':
        return cbor_head(5, len(d[1])) + b''.join(pdata_cbor(a) + pdata_cbor(b) for a, b in d[1])
    c, fs = d[1], d[2]
    body = (b'\x9f' + b''.join(map(pdata_cbor, fs)) + b'\xff') if fs else b'\x80'
    if c < 7:
        return cbor_head(6, 121 + c) + body
    if c < 128:
        return cbor_head(6, 1280 + c - 7) + body
    return cbor_head(6, 102) + b'\x82' + cbor_int(c) + body


def gen_native(rng, depth):
    k = rng.choice(['sig', 'sig', 'after', 'before'] + (['all', 'any', 'atLeast'] if depth > 0 else []))
    if k == 'sig':
        return ['sig', rbytes(rng, 28).hex()]
    if k in ('after', 'before'):
        return [k, rng.choice([0, 1, 1000, 2**32, 2**63])]
    subs = [gen_native(rng, depth - 1) for _ in range(rng.randint(0, 3))]
    if k == 'atLeast':
        return ['atLeast', rng.randint(0, 3), subs]
    return [k, subs]


def gen_utxo(rng, svc, script_kind):
    assets = gen_assets(rng)
    flat = [[p, n, q] for p, names in assets for n, q in names]
    if rng.random() < 0.6:
        rng.shuffle(flat)
    r = rng.random()
    if r < 0.4:
        datum = ['none']
    elif r < 0.65:
        pre = None
        if rng.random() < 0.4:
            pre = pdata_cbor(gen_pdata(rng, 1)).hex()
        datum = ['hash', rbytes(rng, 32).hex(), pre]
    else:
        pd = gen_pdata(rng, 3 if rng.random() < 0.3 else 2)
        raw = pdata_cbor(pd)
        datum = ['inline', hashlib.blake2b(raw, digest_size=32).hexdigest(), raw.hex(), pd]
    script, sh, wrapped, digests = None, '', False, ['', '']
    if script_kind in ('plutus', 'plutus_v3'):
        vers = [1, 2] if svc in ('ogmios_v5', 'cli') else [1, 2, 3]
        ver = 3 if script_kind == 'plutus_v3' else rng.choice(vers)
        body = rbytes(rng, rng.choice([1, 14, 23, 24, 24, 60, 60, 255, 256]) if rng.random() < 0.3 else rng.randint(1, 40))
        script = ['plutus', ver, body.hex()]
        wrapped = rng.random() < 0.4
        wrappedb = cbor_head(2, len(body)) + body
        digests = [hashlib.blake2b(bytes([ver]) + b, digest_size=28).hexdigest() for b in (body, wrappedb)]
        sh = digests[0]
    elif script_kind == 'native':
        script = ['native', gen_native(rng, 2)]
        sh = rbytes(rng, 28).hex()
    return dict(txid=rbytes(rng, 32).hex(), index=rng.choice(INDEX), lovelace=rng.choice(LOVELACE), assets=assets, flat=flat,
                datum=datum, script=script, script_hash=sh, wrapped=wrapped, digests=digests)


def supported(svc, script):
    if script is None:
        return True
    if script[0] == 'plutus':
        return script[1] in ((1, 2) if svc in ('ogmios_v5', 'cli') else (1, 2, 3))
    return svc == 'blockfrost'


def gen_case(rng, svc, region=False):
    nu = rng.choice([1, 1, 1, 1, 2, 2, 3])
    us = []
    for k in range(nu):
        r = rng.random()
        kind = None if r < 0.55 else 'plutus'
        if svc == 'blockfrost' and r > 0.85:
            kind = 'native'
        us.append(gen_utxo(rng, svc, kind))
    if region:                                     # one UTxO of the response carries an unsupported reference script
        kind = 'plutus_v3' if svc == 'cli' and rng.random() < 0.5 else 'native'
        us[rng.randrange(len(us))] = gen_utxo(rng, svc, kind)
    ids = set()
    for u in us:                                   # distinct transaction references within one response
        while (u['txid'], u['index']) in ids:
            u['index'] += 1
        ids.add((u['txid'], u['index']))
    return dict(svc=svc, addr=rng.choice(ADDRESSES), utxos=us)


def in_region(case):
    return any(not supported(case['svc'], u['script']) for u in case['utxos'])


def pdata_wf(d):
    """wf_pdata of Adapters.v: map keys are ints / byte strings, pairwise distinct (what a Python dict keeps apart)."""
    k = d[0]
    if k == 'constr':
        return d[1] >= 0 and all(pdata_wf(x) for x in d[2])
    if k == 'list':
        return all(pdata_wf(x) for x in d[1])
    if k == 'map':
        keys = [a for a, _ in d[1]]
        return (all(a[0] in ('int', 'bytes') for a in keys) and all(keys[i] != keys[j] for i in range(len(keys)) for j in range(i))
                and all(pdata_wf(b) for _, b in d[1]))
    return True


def in_datum_region(case):
    return case['svc'] == 'cli' and any(u['datum'][0] == 'inline' and not pdata_wf(u['datum'][3]) for u in case['utxos'])


def gen_datum_region_case(rng):
    """cardano-cli response with one inline datum whose Plutus map has a non-int/bytes key or a repeated key."""
    c = gen_case(rng, 'cli')
    u = c['utxos'][rng.randrange(len(c['utxos']))]
    val = gen_pdata(rng, 1)
    if rng.random() < 0.5:
        key = rng.choice([['constr', 0, []], ['list', []], ['map', []], ['constr', 1, [['int', 1]]]])
        m = ['map', [[['int', 7], ['int', 0]], [key, val]]]
    else:
        key = rng.choice([['int', 1], ['bytes', 'aa'], ['bytes', '']])
        m = ['map', [[key, ['int', 1]], [['int', 2], val], [key, ['int', 2]]]]
    pd = m if rng.random() < 0.5 else ['constr', 0, [['int', 5], m]]
    raw = pdata_cbor(pd)
    u['datum'] = ['inline', hashlib.blake2b(raw, digest_size=32).hexdigest(), raw.hex(), pd]
    assert in_datum_region(c)
    return c


# ---------------------------------------------------------------- Coq literals
def hxs(h):
    """bytes literal: big-endian groups of 7 bytes as primitive integers (string / constructor-list literals cost
    coqc 40-50 us per character; primitive integers are parsed natively)"""
    b = bytes.fromhex(h)
    if not b:
        return '[]'
    groups = [str(int.from_bytes(b[i:i + 7], 'big')) for i in range(0, len(b), 7)]
    return f'(ub {len(b)} [' + ';'.join(groups) + ']%uint63)'


def r_addr(a):
    return f'(addr_at {ADDRESSES.index(a)})' if a in ADDRESSES else cstr(a)


def r_native(s):
    k = s[0]
    if k == 'sig':
        return f'(NSig {hxs(s[1])})'
    if k == 'after':
        return f'(NAfter {cz(s[1])})'
    if k == 'before':
        return f'(NBefore {cz(s[1])})'
    if k == 'atLeast':
        return f'(NAtLeast {cz(s[1])} {clist([r_native(x) for x in s[2]])})'
    return f'({"NAll" if k == "all" else "NAny"} {clist([r_native(x) for x in s[1]])})'


def r_pdata(d):
    k = d[0]
    if k == 'int':
        return f'(PInt {cz(d[1])})'
    if k == 'bytes':
        return f'(PBytes {hxs(d[1])})'
    if k == 'list':
        return f'(PList {clist([r_pdata(x) for x in d[1]])})'
    if k == 'map':
        return f'(PMap {clist([cpair(r_pdata(a), r_pdata(b)) for a, b in d[1]])})'
    return f'(PConstr {cz(d[1])} {clist([r_pdata(x) for x in d[2]])})'


def r_script(s):
    if s is None:
        return 'None'
    if s[0] == 'plutus':
        return f'(Some (SPlutus {cn(s[1])} {hxs(s[2])}))'
    return f'(Some (SNative {r_native(s[1])}))'


def r_datum(d):
    if d[0] == 'none':
        return 'DNone'
    if d[0] == 'hash':
        return f'(DHash {hxs(d[1])} {copt(None if d[2] is None else hxs(d[2]))})'
    return f'(DInline {hxs(d[1])} {hxs(d[2])} {r_pdata(d[3])})'


def r_utxo(u):
    assets = clist([cpair(hxs(p), clist([cpair(hxs(n), cn(q)) for n, q in names])) for p, names in u['assets']])
    grouped = [[p, n, q] for p, names in u['assets'] for n, q in names]
    idx = []
    for e in u['flat']:                      # the listing order as indices into the grouped listing
        idx.append(grouped.index(e))
    assert sorted(idx) == list(range(len(grouped)))
    flat = '(perm_flat a ' + clist([f'{i}%nat' for i in idx]) + ')'
    return (f'(let a := {assets} in mkU {hxs(u["txid"])} {cn(u["index"])} {cn(u["lovelace"])} a {flat} {r_datum(u["datum"])} '
            f'{r_script(u["script"])} {hxs(u["script_hash"])} {cbool(u["wrapped"])})')


def r_case(c):
    hs = clist([cpair(hxs(u['digests'][0]), hxs(u['digests'][1])) for u in c['utxos']])
    return f'({COQ_SVC[c["svc"]]}, {r_addr(c["addr"])}, {clist([r_utxo(u) for u in c["utxos"]])}, {hs})'


class Malformed(Exception):
    pass


def _int(x):
    if type(x) is not int:
        raise Malformed(f'not an int: {x!r}')
    return x


def _hex(x):
    if not isinstance(x, str) or re.fullmatch(r'([0-9a-f]{2})*', x) is None:
        raise Malformed(f'not hex: {x!r}')
    return hxs(x)


def r_pyd(y):
    k = y[0]
    if k == 'int':
        return f'(YInt {cz(_int(y[1]))})'
    if k == 'bytes':
        return f'(YBytes {_hex(y[1])})'
    if k == 'bytestring':
        return f'(YByteString {_hex(y[1])})'
    if k == 'tag':
        return f'(YTag {cz(_int(y[1]))} {clist([r_pyd(x) for x in y[2]])})'
    if k == 'tag102':
        return f'(YTag102 {cz(_int(y[1]))} {clist([r_pyd(x) for x in y[2]])})'
    if k == 'ilist':
        return f'(YIList {clist([r_pyd(x) for x in y[1]])})'
    if k == 'dict':
        return f'(YDict {clist([cpair(r_pyd(a), r_pyd(b)) for a, b in y[1]])})'
    raise Malformed(f'unexpected datum structure {y!r}')


def r_impl_native(s):
    k = s[0]
    if k == 'sig':
        return f'(NSig {_hex(s[1])})'
    if k in ('after', 'before'):
        return f'({"NAfter" if k == "after" else "NBefore"} {cz(_int(s[1]))})'
    if k == 'atLeast':
        return f'(NAtLeast {cz(_int(s[1]))} {clist([r_impl_native(x) for x in s[2]])})'
    if k in ('all', 'any'):
        return f'({"NAll" if k == "all" else "NAny"} {clist([r_impl_native(x) for x in s[1]])})'
    raise Malformed(f'unexpected native script {s!r}')


def r_impl_utxo(o):
    if not all(32 <= ord(ch) < 127 and ch != '"' for ch in o['addr']):
        raise Malformed('address text')
    assets = clist([cpair(_hex(p), clist([cpair(_hex(n), cz(_int(q))) for n, q in names])) for p, names in o['assets']])
    d = o['datum']
    if d is None:
        datum = 'None'
    elif d[0] == 'raw':
        datum = f'(Some (ARaw {_hex(d[1])}))'
    elif d[0] == 'data':
        datum = f'(Some (AData {r_pyd(d[1])}))'
    else:
        raise Malformed(f'unexpected datum {d!r}')
    s = o['script']
    if s is None:
        script = 'None'
    elif s[0] == 'plutus':
        script = f'(Some (SPlutus {cn(_int(s[1]))} {_hex(s[2])}))'
    elif s[0] == 'native':
        script = f'(Some (SNative {r_impl_native(s[1])}))'
    else:
        raise Malformed(f'unexpected script {s!r}')
    dh = 'None' if o['datum_hash'] is None else f'(Some {_hex(o["datum_hash"])})'
    return (f'(mkA {_hex(o["txid"])} {cz(_int(o["index"]))} {r_addr(o["addr"])} {cz(_int(o["lovelace"]))} {assets} '
            f'{dh} {datum} {script})')


def r_impl(res):
    if 'err' in res:
        return f'(Err {cstr(res["err"].replace(":", "_"))})'
    return f'(Ok {clist([r_impl_utxo(o) for o in res["ok"]])})'


# ---------------------------------------------------------------- pass 1: Coq renders the documents
_TOK = re.compile(r'(\d+)%uint63|(\[)|(\])')


def parse_coq_packed(out):
    """Parse the printed value of type list (list (list int)): per case [key; text; key; text; ...], every string as
    [length; 7-byte big-endian groups...] of primitive integers."""
    start = out.index('= ') + 2
    end = out.rindex(': list (list')
    cases, docs, cur, depth = [], None, None, 0
    for m in _TOK.finditer(out, start, end):
        if m.group(1) is not None:
            cur.append(int(m.group(1)))
        elif m.group(2):
            depth += 1
            if depth == 2:
                docs = []
            elif depth == 3:
                cur = []
        else:
            if depth == 3:
                n, groups = cur[0], cur[1:]
                assert len(groups) == (n + 6) // 7, (n, len(groups))
                b = b''.join(g.to_bytes(7 if (i + 1) * 7 <= n else n - i * 7, 'big') for i, g in enumerate(groups))
                docs.append(b.decode('ascii'))
            elif depth == 2:
                cases.append(docs)
            depth -= 1
    assert depth == 0
    return cases


SHARD = 96


def coq_render(cases):
    """render_k.v: Definition cases (compiled to render_k.vo, re-used by pass 2) + the documents of every case."""
    d = os.path.join(C.WORK, PID)
    os.makedirs(d, exist_ok=True)
    for fn in os.listdir(d):
        if fn.startswith(('render_', '.render_')):
            os.remove(os.path.join(d, fn))
    pending = []
    for k in range(0, len(cases), SHARD):
        part = cases[k:k + SHARD]
        p = os.path.join(d, f'render_{k // SHARD}.v')
        with open(p, 'w') as f:
            f.write(HEADER + 'Definition cases : list case :=\n' + clist([r_case(c) for c in part]) + '.\n'
                    'Eval vm_compute in (map case_docs cases).\n')
        pending.append((k, len(part), p))
    out_docs = [None] * len(cases)
    running = []
    while pending or running:
        while pending and len(running) < C.NPROC:
            k, n, p = pending.pop(0)
            running.append((k, n, subprocess.Popen(['coqc'] + C.QFLAGS + [p], cwd=d, stdout=subprocess.PIPE,
                                                    stderr=subprocess.PIPE, text=True)))
        k, n, pr = running.pop(0)
        out, err = pr.communicate()
        if pr.returncode != 0:
            raise RuntimeError('render pass failed: ' + (out + err)[-2000:])
        docs = parse_coq_packed(out)
        assert len(docs) == n, (len(docs), n)
        for j, dl in enumerate(docs):
            assert len(dl) % 2 == 0
            out_docs[k + j] = {dl[i]: dl[i + 1] for i in range(0, len(dl), 2)}
    return out_docs


# ---------------------------------------------------------------- pass 2
def render_pass2(shard_no, results):
    """cases_k.v: the adapter outputs of shard k, zipped with the cases of render_k.vo."""
    items = []
    for r in results:
        try:
            items.append(r_impl(r))
        except Malformed:
            items.append('(Err "MALFORMED-OUTPUT")')
    body = f'Require Import render_{shard_no}.\n'
    body += 'Definition impl : list (result (list autxo)) :=\n' + clist(items) + '.\n'
    body += 'Definition zipped := combine (seq 0 (length cases)) (combine cases impl).\n'
    body += 'Eval vm_compute in (map fst (filter (fun c => negb (c20_corr (fst (snd c)) (snd (snd c)))) zipped)).\n'
    body += 'Eval vm_compute in (map fst (filter (fun c => negb (c20_oracle (fst (snd c)) (snd (snd c)))) zipped)).\n'
    return body


def python_side_fail(case, res):
    """Address bytes of the returned object against the independently decoded pool entry."""
    if 'ok' not in res:
        return False
    return any(o.get('addr_bytes') != ADDR_BYTES[case['addr']] for o in res['ok'])


def evaluate(cases, results):
    mism, ofail, errs = set(), set(), []
    for i, (c, r) in enumerate(zip(cases, results)):
        if 'driver_error' in r:
            errs.append(r['driver_error'] + '\n' + r.get('tb', ''))
        elif python_side_fail(c, r):
            ofail.add(i)
    if errs:
        return mism, ofail, errs
    shards = [render_pass2(k // SHARD, results[k:k + SHARD]) for k in range(0, len(cases), SHARD)]
    for sn, (ok, lists, log) in enumerate(C.run_cases(PID, shards, HEADER)):
        if not ok or len(lists) != 2:
            errs.append(log[-1500:])
            continue
        mism.update(sn * SHARD + j for j in lists[0]); ofail.update(sn * SHARD + j for j in lists[1])
    return mism, ofail, errs


def run(cases):
    docs = coq_render(cases)
    payload = [{'svc': c['svc'], 'addr': c['addr'], 'docs': d} for c, d in zip(cases, docs)]
    results = C.run_impl('adapters_driver', {'cases': payload})
    mism, ofail, errs = evaluate(cases, results)
    return docs, results, mism, ofail, errs


def nontrivial(c):
    return any(len(u['flat']) >= 2 or u['datum'][0] != 'none' or u['script'] for u in c['utxos'])


def classify(case, res, model_agrees):
    if 'driver_error' in res:
        return 'exception'
    if in_region(case) and model_agrees and 'err' in res:
        return REGION                # the adapter raises exactly as the faithful model says it does for this script kind
    if in_datum_region(case) and not in_region(case) and model_agrees:
        return REGION_DATUM          # raises / collapses the map exactly as the faithful model of from_dict does
    return 'unfaithful'


def gen_cases(ctx, per_svc, n_region):
    cases = []
    for svc in SVCS:
        for _ in range(per_svc):
            cases.append(gen_case(ctx.rng, svc))
    for svc in ('ogmios_v5', 'ogmios_v6', 'kupo', 'cli'):
        for _ in range(n_region):
            cases.append(gen_case(ctx.rng, svc, region=True))
    for _ in range(2 * n_region):
        cases.append(gen_datum_region_case(ctx.rng))
    return cases


def correspond(ctx, per_svc=None):
    per_svc = per_svc or ctx.n(300, 5000)
    cases = gen_cases(ctx, per_svc, ctx.n(6, 40))
    t0 = time.time()
    docs, results, mism, ofail, errs = run(cases)
    if errs:
        raise RuntimeError('harness failure: ' + errs[0])
    hist = {s: 0 for s in SVCS}
    feat = dict(ada_only=0, multi_name_policy=0, empty_name=0, qty_ge_2_63=0, datum_hash=0, datum_hash_resolved=0, inline_datum=0,
                plutus_script=0, native_script=0, wrapped_script=0, shuffled_flat_order=0, multi_utxo=0, region_cases=0, datum_region_cases=0)
    for c in cases:
        hist[c['svc']] += 1
        feat['multi_utxo'] += len(c['utxos']) > 1
        feat['region_cases'] += in_region(c)
        feat['datum_region_cases'] += in_datum_region(c)
        for u in c['utxos']:
            feat['ada_only'] += not u['assets']
            feat['multi_name_policy'] += any(len(ns) > 1 for _, ns in u['assets'])
            feat['empty_name'] += any(n == '' for _, n, _ in u['flat'])
            feat['qty_ge_2_63'] += any(q >= 2**63 for _, _, q in u['flat'])
            feat['datum_hash'] += u['datum'][0] == 'hash'
            feat['datum_hash_resolved'] += u['datum'][0] == 'hash' and u['datum'][2] is not None
            feat['inline_datum'] += u['datum'][0] == 'inline'
            feat['plutus_script'] += bool(u['script']) and u['script'][0] == 'plutus'
            feat['native_script'] += bool(u['script']) and u['script'][0] == 'native'
            feat['wrapped_script'] += bool(u['wrapped'] and u['script'])
            feat['shuffled_flat_order'] += u['flat'] != [[p, n, q] for p, ns in u['assets'] for n, q in ns]
    errkinds = {}
    for r in results:
        if 'err' in r:
            errkinds[r['err']] = errkinds.get(r['err'], 0) + 1
    distinct = len({C.canon_hash(c) for c in cases if nontrivial(c)})

    def pack(i):
        return {'input': cases[i], 'served': docs[i], 'impl': results[i], 'region': classify(cases[i], results[i], i not in mism)}
    return dict(
        evaluations=len(cases), distinct_nontrivial=distinct,
        rule='per service: responses of 1-3 UTxO models (0-8 assets over 1-4 policies, names of 0-32 bytes incl. empty, "lovelace", '
             'hex-looking and "."/"#" names, quantities from a boundary set up to 2^70, ADA-only entries, grouped or shuffled '
             'flat order, no datum / datum hash (resolvable or not) / inline datum with a generated Plutus-data value, no script / '
             'Plutus v1-v3 (plain or CBOR-wrapped at the script endpoint) / native script), rendered to JSON text by the Coq '
             'render_X; plus a few responses inside each known-finding region (unsupported reference script kinds; cardano-cli '
             'inline datums with non-int/bytes or repeated map keys); non-trivial = some UTxO has >= 2 '
             'assets, a datum or a script; distinct by hash',
        samples=[{'input': cases[0], 'served': docs[0], 'impl': results[0]},
                 {'input': cases[len(cases) // 2], 'served': docs[len(cases) // 2], 'impl': results[len(cases) // 2]}],
        per_service=hist, features=feat, impl_error_kinds=errkinds,
        traces_validated_against_impl=len(cases),
        compared='adapter output (every returned UTxO: tx id, index, re-encoded address text, lovelace, ordered dict of '
                 'ordered dicts, datum hash, datum bytes/structure, script kind+bytes/structure; or exception kind) = '
                 'parse_X (render_X us) exactly; oracle = faithfulb of every modelled UTxO against the adapter output + '
                 'address bytes against the independently decoded pool',
        correspond_s=round(time.time() - t0, 1),
        mismatches=[pack(i) for i in sorted(mism)[:20]],
        oracle_fail=[pack(i) for i in sorted(ofail, key=lambda i: (in_region(cases[i]) or in_datum_region(cases[i]), i))[:80]],
    )


def search(ctx, mism):
    ctx.rng.seed(f'search-{ctx.seed}')
    r = correspond(ctx, 800 if ctx.quick else 12000)
    bad = [f for f in r['oracle_fail'] if f['region'] not in (REGION, REGION_DATUM)]
    return bad[0] if bad else None


def replay(ctx, rep):
    case = rep['case']['input']
    docs, results, mism, ofail, errs = run([case])
    print('input:', json.dumps(case))
    print('served documents (rendered by Coq):', json.dumps(docs[0]))
    print('implementation:', json.dumps(results[0]))
    if errs:
        print('harness errors:', errs[0])
    print('model agrees:', 0 not in mism, ' property oracle holds:', 0 not in ofail)
    return 1 if ofail else 0
