"""C20 — chain-context adapters report UTxOs faithfully (Blockfrost, Ogmios v5, Ogmios v6, Kupo, cardano-cli).

Pipeline of one run (after the proofs are rebuilt by check.py):
  1. generate UTxO models (this module, seeded);
  2. pass 1 (coqc, vm_compute): `render_X` of Adapters.v turns every model into the service's documents and
     `json_to_string` into JSON TEXT — the text served to the adapters is produced by the Coq specification side;
  3. tools/impl/adapters_driver.py runs the REAL adapter (`utxos(address)`) with only the transport stubbed;
  4. pass 2 (coqc, vm_compute): `c20_corr`  = parse_X (render_X u) equals the adapter's output (exact: structure,
     insertion order, exception kind) and `c20_oracle` = the decision procedure of the property (faithfulb, proved
     sound for `faithful_any`) on the ADAPTER's output against the generated model.
Sequences (state carried across calls of ONE adapter instance): a generated run — the harness clock advances, blocks arrive
(new tip slot, outputs spent and created), the client calls utxos(address) / reads last_block_slot / triggers
_is_chain_tip_updated() — is executed on one real context (clock and transport stubbed) and, in Coq, by the state
machine of AdaptersSeq.v over parse_X (render_X ..): `seq_corr` = every observation agrees exactly; `seq_oracleb` = every
answer is a faithful report (c20_oracle) of a ledger state that is current at the query or was current at an event of
the run less than the `last_block_slot` memo's ttl (1 s; 0 for Kupo over a live tip and for Blockfrost) earlier."""
import hashlib, json, os, re, subprocess, time
from lib import common as C
from lib.common import cz, cn, chx, cbool, cstr, clist, cpair, copt

PID = 'C20'
TARGETS = ['props/C20.vo', 'theories/AdaptersOracle.vo', 'theories/AdaptersSeqOracle.vo']
LEVEL = 'proof'

MANIFEST = dict(
    text='Theorems (Coq, unbounded in the number of UTxOs/policies/assets, names of 0..32 bytes, any N quantities): for each of '
         'Blockfrost, Ogmios v5, Ogmios v6, Kupo, cardano-cli, parse_X (render_X us) = Ok outs with every out faithful to its '
         'UTxO: same tx ref, address, lovelace, exactly the same quantity for every (policy, name), exactly the same key set, '
         'well-formed dicts, datum hash / inline datum / reference script as the service reports them; helper lemmas hex round '
         'trip, 56-character unit split, policy.name split; two _refuted lemmas for the known findings (unsupported reference '
         'script kinds; cardano-cli inline datums with non-int/bytes or repeated map keys). The JSON text '
         'served to the real adapters is computed by the Coq render_X; model = adapter output exactly on every case; the '
         'proved-sound oracle runs on the adapter outputs. Repeated queries of one adapter instance while the service changes: '
         'state machine of the adapter (last_block_slot memo with ttl, TTL/LRU UTxO cache keyed by (slot, address), '
         '_is_chain_tip_updated) with theorem C20_seq_fresh: for strictly increasing tip slots every answer of utxos(a) is the '
         'service\'s answer for the ledger state current at the query or at an event of the run less than the memo ttl '
         '(1 s) earlier; = the CURRENT answer when the tip is read live or nothing is cached (C20_seq_current); composed with '
         'the faithfulness theorem (C20_seq_adapters); exact correspondence of whole runs; sound sequence oracle.',
    note='Trusted: Coq kernel+vm_compute; render_X as transcription of the service documentation; hand model parse_X tied by exact '
         'correspondence; json.loads; stub transports; generator. Address text -> Address is opaque (C15). No axioms.',
    technique='Coq proof (fold invariants over dict insertion, permutation-invariant content, nested-inductive round trips for '
              'native scripts and Plutus data JSON) + correspondence through Coq-rendered JSON text', ref='C20')
TRUSTED = [
    'Coq 8.16.1 kernel incl. vm_compute (no native_compute); no axioms (see Print Assumptions lines)',
    'coq/theories/Adapters.v render_X = the documented JSON shapes (Blockfrost OpenAPI, Ogmios v5.6 / v6 schemas, Kupo API, '
    'cardano-api TxOut/ScriptInAnyLang ToJSON), written from documentation knowledge (services are not reachable offline)',
    'coq/theories/Adapters.v parse_X = hand model of the adapters, tied by exact correspondence on every generated case '
    '(returned structure incl. dict insertion order, exception kind)',
    'Python json.loads on the Coq-produced text (object keys unique and characters plain: json_ok checked per case in Coq); '
    'blockfrost-python and ogmios-python response handling runs for real',
    'tools/impl/adapters_driver.py (stub transports, the harness clock replacing time.monotonic/time.time in ticks of '
    '1/1024 s, attribute-walk dump), tools/props/c20.py (generator, literal printer, '
    'parser of the Coq-printed text, standalone bech32 decoder for the address pool)',
    'blake2b-224 enters the model as a function parameter; per case it is the finite table of hashlib digests of the script '
    'bytes involved',
]
ASSUMPTIONS = [
    'regions carved out by decidable premises and refuted in Coq (known findings): script_supported (native reference scripts on '
    'Ogmios v5/v6, Kupo, cardano-cli; PlutusV3 on cardano-cli) and wf_pdata for cardano-cli inline datums (map keys ints/bytes, '
    'pairwise distinct); a failing case gets a region tag only if the faithful model predicts the adapter output exactly',
    'Address.from_primitive(text) is opaque in the model (the text is carried); the returned Address is compared by its '
    're-encoded text and by its raw bytes against an address pool decoded by an independent bech32 decoder',
    'Blockfrost pagination (>= 100 UTxOs per page), HTTP error paths, the Kupo datum cache (content-addressed) and spent Kupo '
    'matches are outside the model',
    'sequences: the service reports strictly increasing tip slots (no roll-back to an equal or smaller slot: the adapters key '
    'their cache by slot, so a roll-back can be served from the cache for up to the refetch interval); Kupo wraps a backend '
    'whose last_block_slot is read live; the allowed staleness is exactly the ttl of the `last_block_slot` memo (1 s) — '
    'C20_seq_stale_within_memo shows it does occur; cachetools TTLCache/ttl_cache semantics are modelled (expiry now < '
    'stored + ttl, LRU eviction at maxsize) and tied by the exact correspondence of runs on the harness clock',
    'for cardano-cli the inline datum is compared as a VALUE (structure built by RawPlutusData.from_dict); its byte encoding is C18',
    'int()/bytes.fromhex() are modelled on the text the services emit (decimal digits, hex without whitespace)',
]

SVCS = ['blockfrost', 'ogmios_v5', 'ogmios_v6', 'kupo', 'cli']
COQ_SVC = {'blockfrost': 'Blockfrost', 'ogmios_v5': 'OgmiosV5', 'ogmios_v6': 'OgmiosV6', 'kupo': 'Kupo', 'cli': 'Cli'}
REGION = 'script_unsupported'
REGION_DATUM = 'cli_datum_map_key'

HEADER0 = '''From Coq Require Import Uint63.
From Coq Require Import NArith ZArith Ascii String List Bool.
From Coq Require Import Init.Byte.
From PyC Require Import Base Cbor Dict Value Json Adapters AdaptersOracle AdaptersSeq AdaptersSeqOracle.
Import ListNotations.
Open Scope string_scope.
Open Scope list_scope.
'''

# ---------------------------------------------------------------- address pool (text, raw bytes)
# produced once with adapters_driver.make_addresses(); the bytes are re-derived here by an independent bech32 decoder
ADDRESSES = [
    'addr_test1qqxk54m7j3q6mrkevcunryrwf4p7e68c93cjk8gzxkhlkp48eprlu7jd0nze39lrg9rdggzdcu420wecqg3gxfxnkm0qptq7zg',
    'addr_test1vqxk54m7j3q6mrkevcunryrwf4p7e68c93cjk8gzxkhlkpsffv7s0',
    'addr1qyqgk3uyfkfgzt7rp50s4jdkl0ecw7xvh2wmsvf2myreq7f9w9pdf4necmp943yj06ezp2r05qlqkp7qf4p3p9s7e8kqu336lx',
    'addr1vyqgk3uyfkfgzt7rp50s4jdkl0ecw7xvh2wmsvf2myreq7gd27kn4',
    'addr1x8nz307k3sr60gu0e47cmajssy4fmld7u493a4xztjrll0aj764lvrxdayh2ux30fl0ktuh27csgmpevdu89jlxppvrswgxsta',
]
_B32 = 'qpzry9x8gf2tvdw0s3jn54khce6mua7l'


def bech32_bytes(text):
    hrp, data = text.rsplit('1', 1)
    vals = [_B32.index(c) for c in data]
    chk = 1
    for v in [ord(c) >> 5 for c in hrp] + [0] + [ord(c) & 31 for c in hrp] + vals:
        b = chk >> 25
        chk = ((chk & 0x1ffffff) << 5) ^ v
        for i, g in enumerate((0x3b6a57b2, 0x26508e6d, 0x1ea119fa, 0x3d4233dd, 0x2a1462b3)):
            if (b >> i) & 1:
                chk ^= g
    assert chk == 1, 'bad bech32 checksum in the address pool'
    acc = bits = 0
    out = bytearray()
    for v in vals[:-6]:
        acc = (acc << 5) | v
        bits += 5
        while bits >= 8:
            bits -= 8
            out.append((acc >> bits) & 0xff)
    assert (acc & ((1 << bits) - 1)) == 0 and bits < 5
    return bytes(out)


ADDR_BYTES = {a: bech32_bytes(a).hex() for a in ADDRESSES}
HEADER = HEADER0 + 'Definition addr_pool : list string := ' + clist([cstr(a) for a in ADDRESSES]) + '.\n' \
    + 'Definition addr_at (k : nat) : string := nth k addr_pool "".\n'

# ---------------------------------------------------------------- generator
NAMES = [b'', b'', b'\x00', b'a', b'lovelace', b'6c6f76656c616365', b'.', b'#', b'ada', b'dead', b'DEADBEEF', b'00',
         b'\xff', b'tok', b'a' * 31, b'a' * 32, b'\xff' * 32, b'\x00' * 32, b'0' * 32, b'n.ft', b'1']
QTY = [0, 1, 1, 1, 2, 7, 255, 256, 10**6, 2**31, 2**32, 2**53, 2**53 + 1, 2**63 - 1, 2**63, 2**63 + 1, 2**64 - 1, 2**64,
       2**64 + 1, 10**19, 10**20, 2**70, 45 * 10**15, 999999999999999999]
LOVELACE = [0, 1, 857690, 1000000, 2**32, 45 * 10**15, 2**63 - 1, 2**63, 2**64, 2**64 + 1, 10**20, 708864940]
INDEX = [0, 0, 1, 2, 3, 7, 255, 256, 65535, 2**32]


def rbytes(rng, n):
    return bytes(rng.getrandbits(8) for _ in range(n))


def gen_assets(rng):
    r = rng.random()
    if r < 0.18:
        return []
    npol = rng.randint(1, 4)
    total = rng.randint(npol, 8)
    base = [bytes([1]) * 28, bytes([0xaa]) * 28, b'\x00' * 28, b'\xff' * 28, bytes(range(28))]
    pols = []
    while len(pols) < npol:
        p = rng.choice(base) if rng.random() < 0.4 else rbytes(rng, 28)
        if p not in pols:
            pols.append(p)
    counts = [1] * npol
    for _ in range(total - npol):
        counts[rng.randrange(npol)] += 1
    out = []
    for p, k in zip(pols, counts):
        names = []
        while len(names) < k:
            r2 = rng.random()
            if r2 < 0.12:
                n = rng.choice(pols)                 # a token named after a policy id (its own or a neighbour's): same bytes, other role
            elif r2 < 0.16:
                n = rng.choice(base)                 # ... after a well-known 28-byte hash other UTxOs use as policy / credential
            else:
                n = rng.choice(NAMES) if rng.random() < 0.7 else rbytes(rng, rng.randint(0, 32))
            if n not in names:
                names.append(n)
        out.append([p.hex(), [[n.hex(), rng.choice(QTY)] for n in names]])
    return out


def gen_pdata(rng, depth):
    k = rng.choice(['int', 'bytes', 'constr', 'list', 'map'] if depth > 0 else ['int', 'bytes', 'constr0'])
    if k == 'int':
        return ['int', rng.choice([0, 1, -1, 23, 24, -25, 2**32, 2**64 - 1, 2**64, -2**64, -2**64 - 1, 10**30])]
    if k == 'bytes':
        return ['bytes', rbytes(rng, rng.choice([0, 1, 28, 31, 32, 33, 64, 65, 100])).hex()]
    if k == 'constr0':
        return ['constr', rng.choice([0, 1, 6, 7, 127, 128, 1000]), []]
    if k == 'constr':
        return ['constr', rng.choice([0, 0, 1, 2, 6, 7, 8, 127, 128, 129, 2**32]),
                [gen_pdata(rng, depth - 1) for _ in range(rng.randint(0, 3))]]
    if k == 'list':
        return ['list', [gen_pdata(rng, depth - 1) for _ in range(rng.randint(0, 3))]]
    keys, kvs = [], []
    for _ in range(rng.randint(0, 3)):
        key = ['int', rng.randint(-3, 5)] if rng.random() < 0.5 else ['bytes', rbytes(rng, rng.choice([0, 1, 2, 28, 40])).hex()]
        if key not in keys:
            keys.append(key)
            kvs.append([key, gen_pdata(rng, depth - 1)])
    return ['map', kvs]


def cbor_head(major, n):
    if n < 24:
        return bytes([major * 32 + n])
    for ai, size in ((24, 1), (25, 2), (26, 4), (27, 8)):
        if n < 1 << (8 * size):
            return bytes([major * 32 + ai]) + n.to_bytes(size, 'big')
    raise ValueError(n)


def cbor_int(z):
    if 0 <= z < 2**64:
        return cbor_head(0, z)
    if -2**64 <= z < 0:
        return cbor_head(1, -1 - z)
    mag = z if z >= 0 else -1 - z
    return cbor_head(6, 2 if z >= 0 else 3) + cbor_bytes(mag.to_bytes((mag.bit_length() + 7) // 8, 'big'))


def cbor_bytes(b):
    if len(b) <= 64:
        return cbor_head(2, len(b)) + b
    return b'\x5f' + b''.join(cbor_head(2, len(b[i:i + 64])) + b[i:i + 64] for i in range(0, len(b), 64)) + b'\xff'


def pdata_cbor(d):
    """A ledger-style encoding of the datum (opaque to every adapter; only carried as bytes)."""
    k = d[0]
    if k == 'int':
        return cbor_int(d[1])
    if k == 'bytes':
        return cbor_bytes(bytes.fromhex(d[1]))
    if k == 'list':
        return (b'\x9f' + b''.join(map(pdata_cbor, d[1])) + b'\xff') if d[1] else b'\x80'
    if k == 'map':
        return cbor_head(5, len(d[1])) + b''.join(pdata_cbor(a) + pdata_cbor(b) for a, b in d[1])
    c, fs = d[1], d[2]
    body = (b'\x9f' + b''.join(map(pdata_cbor, fs)) + b'\xff') if fs else b'\x80'
    if c < 7:
        return cbor_head(6, 121 + c) + body
    if c < 128:
        return cbor_head(6, 1280 + c - 7) + body
    return cbor_head(6, 102) + b'\x82' + cbor_int(c) + body


def gen_native(rng, depth):
    k = rng.choice(['sig', 'sig', 'after', 'before'] + (['all', 'any', 'atLeast'] if depth > 0 else []))
    if k == 'sig':
        return ['sig', rbytes(rng, 28).hex()]
    if k in ('after', 'before'):
        return [k, rng.choice([0, 1, 1000, 2**32, 2**63])]
    subs = [gen_native(rng, depth - 1) for _ in range(rng.randint(0, 3))]
    if k == 'atLeast':
        return ['atLeast', rng.randint(0, 3), subs]
    return [k, subs]


def gen_utxo(rng, svc, script_kind, like=None):
    """like = an earlier UTxO: the new one carries the SAME script bytes under another Plutus language and / or the same
    datum hash (same preimage) — what a cache keyed on the bytes or the hash alone cannot tell apart"""
    assets = gen_assets(rng)
    flat = [[p, n, q] for p, names in assets for n, q in names]
    if rng.random() < 0.6:
        rng.shuffle(flat)
    r = rng.random()
    if r < 0.4:
        datum = ['none']
    elif r < 0.65:
        pre = None
        if rng.random() < 0.4:
            pre = pdata_cbor(gen_pdata(rng, 1)).hex()
        datum = ['hash', rbytes(rng, 32).hex(), pre]
    else:
        pd = gen_pdata(rng, 3 if rng.random() < 0.3 else 2)
        raw = pdata_cbor(pd)
        datum = ['inline', hashlib.blake2b(raw, digest_size=32).hexdigest(), raw.hex(), pd]
    if like is not None and like['datum'][0] == 'hash' and rng.random() < 0.5:
        datum = list(like['datum'])
    script, sh, wrapped, digests = None, '', False, ['', '']
    same_body = None
    if like is not None and like.get('script') and like['script'][0] == 'plutus' and script_kind != 'native':
        script_kind, same_body = 'plutus', like['script']
    if script_kind in ('plutus', 'plutus_v3'):
        vers = [1, 2] if svc in ('ogmios_v5', 'cli') else [1, 2, 3]
        ver = 3 if script_kind == 'plutus_v3' else rng.choice(vers)
        body = rbytes(rng, rng.choice([1, 14, 23, 24, 24, 60, 60, 255, 256]) if rng.random() < 0.3 else rng.randint(1, 40))
        if same_body is not None:
            body = bytes.fromhex(same_body[2])
            ver = rng.choice([v for v in vers if v != same_body[1]] or vers)
        script = ['plutus', ver, body.hex()]
        wrapped = rng.random() < 0.4
        wrappedb = cbor_head(2, len(body)) + body
        digests = [hashlib.blake2b(bytes([ver]) + b, digest_size=28).hexdigest() for b in (body, wrappedb)]
        sh = digests[0]
    elif script_kind == 'native':
        script = ['native', gen_native(rng, 2)]
        sh = rbytes(rng, 28).hex()
    return dict(txid=rbytes(rng, 32).hex(), index=rng.choice(INDEX), lovelace=rng.choice(LOVELACE), assets=assets, flat=flat,
                datum=datum, script=script, script_hash=sh, wrapped=wrapped, digests=digests)


def supported(svc, script):
    if script is None:
        return True
    if script[0] == 'plutus':
        return script[1] in ((1, 2) if svc in ('ogmios_v5', 'cli') else (1, 2, 3))
    return svc == 'blockfrost'


def gen_case(rng, svc, region=False):
    nu = rng.choice([1, 1, 1, 1, 2, 2, 3])
    us = []
    for k in range(nu):
        r = rng.random()
        kind = None if r < 0.55 else 'plutus'
        if svc == 'blockfrost' and r > 0.85:
            kind = 'native'
        like = us[0] if k >= 1 and rng.random() < 0.3 else None
        us.append(gen_utxo(rng, svc, kind, like))
    if region:                                     # one UTxO of the response carries an unsupported reference script
        kind = 'plutus_v3' if svc == 'cli' and rng.random() < 0.5 else 'native'
        us[rng.randrange(len(us))] = gen_utxo(rng, svc, kind)
    ids = set()
    for u in us:                                   # distinct transaction references within one response
        while (u['txid'], u['index']) in ids:
            u['index'] += 1
        ids.add((u['txid'], u['index']))
    return dict(svc=svc, addr=rng.choice(ADDRESSES), utxos=us)


def in_region(case):
    return any(not supported(case['svc'], u['script']) for u in case['utxos'])


def pdata_wf(d):
    """wf_pdata of Adapters.v: map keys are ints / byte strings, pairwise distinct (what a Python dict keeps apart)."""
    k = d[0]
    if k == 'constr':
        return d[1] >= 0 and all(pdata_wf(x) for x in d[2])
    if k == 'list':
        return all(pdata_wf(x) for x in d[1])
    if k == 'map':
        keys = [a for a, _ in d[1]]
        return (all(a[0] in ('int', 'bytes') for a in keys) and all(keys[i] != keys[j] for i in range(len(keys)) for j in range(i))
                and all(pdata_wf(b) for _, b in d[1]))
    return True


def in_datum_region(case):
    return case['svc'] == 'cli' and any(u['datum'][0] == 'inline' and not pdata_wf(u['datum'][3]) for u in case['utxos'])


def gen_datum_region_case(rng):
    """cardano-cli response with one inline datum whose Plutus map has a non-int/bytes key or a repeated key."""
    c = gen_case(rng, 'cli')
    u = c['utxos'][rng.randrange(len(c['utxos']))]
    val = gen_pdata(rng, 1)
    if rng.random() < 0.5:
        key = rng.choice([['constr', 0, []], ['list', []], ['map', []], ['constr', 1, [['int', 1]]]])
        m = ['map', [[['int', 7], ['int', 0]], [key, val]]]
    else:
        key = rng.choice([['int', 1], ['bytes', 'aa'], ['bytes', '']])
        m = ['map', [[key, ['int', 1]], [['int', 2], val], [key, ['int', 2]]]]
    pd = m if rng.random() < 0.5 else ['constr', 0, [['int', 5], m]]
    raw = pdata_cbor(pd)
    u['datum'] = ['inline', hashlib.blake2b(raw, digest_size=32).hexdigest(), raw.hex(), pd]
    assert in_datum_region(c)
    return c


# ---------------------------------------------------------------- sequences on one adapter instance
TICK = 1024                                      # harness clock ticks per second
DTS = [0, 1, 256, 512, 1023, 1024, 1025, 1536, 2048, 5 * TICK, 20 * TICK, 999 * TICK, 1000 * TICK, 1001 * TICK]
# refetch_chain_tip_interval handed to the constructor (ticks; None = the constructor's default) and what that default is
INTERVALS = {'blockfrost': [None], 'kupo': [None, None, 1000 * TICK, TICK, 0],
             'ogmios_v5': [1000 * TICK, 1000 * TICK, 20 * TICK, 2 * TICK, 512, 0],
             'ogmios_v6': [None, None, 1000 * TICK, 20 * TICK, 2 * TICK, 512, 0],
             'cli': [1000 * TICK, 1000 * TICK, 20 * TICK, 2 * TICK, 512, 0]}
DEFAULT_INTERVAL = {'blockfrost': 0, 'kupo': 10 * TICK, 'ogmios_v6': 1000 * TICK}
DEFAULT_MAXSIZE = {'blockfrost': 1, 'kupo': 1000, 'ogmios_v5': 10000, 'ogmios_v6': 10000, 'cli': 10000}
MEMO_TTL = {'blockfrost': 0, 'kupo': 0, 'ogmios_v5': TICK, 'ogmios_v6': TICK, 'cli': TICK}
POLLS = ('ogmios_v5', 'ogmios_v6', 'cli')


def gen_seq(rng, svc):
    """One run: a first ledger state, then clock ticks, blocks (tip slot grows; per address outputs are spent and created),
    utxos(address) calls, last_block_slot reads and _is_chain_tip_updated() calls in random order; half of the runs end with
    the directed tail `query a; block changing a; short wait; query a; long wait; query a`."""
    addrs = rng.sample(ADDRESSES, rng.choice([1, 1, 2, 2, 3]))
    interval = rng.choice(INTERVALS[svc])
    maxsize = None if svc == 'blockfrost' or rng.random() < 0.6 else rng.choice([1, 1, 2, 3])

    seen = []

    def fresh():
        like = rng.choice(seen) if seen and rng.random() < 0.3 else None
        kind = None if rng.random() < 0.6 else 'plutus'
        if svc != 'blockfrost' and rng.random() < 0.04:
            # a reference script kind this adapter does not handle (known finding script_unsupported: the whole call raises);
            # what matters in a RUN is what the adapter answers when the caller simply asks again
            kind, like = ('plutus_v3' if svc == 'cli' and rng.random() < 0.5 else 'native'), None
        u = gen_utxo(rng, svc, kind, like)
        u = known(u)
        if u['script'] or u['datum'][0] == 'hash':
            seen.append(u)
        return u

    revealed = {}                 # datum hash -> preimage the service has learnt (one answer per hash, for every UTxO)

    def known(u):
        if u['datum'][0] == 'hash' and u['datum'][2] is None and u['datum'][1] in revealed:
            u = dict(u, datum=['hash', u['datum'][1], revealed[u['datum'][1]]])
        return u

    def reveal():
        """the preimage of a datum hash becomes known to the service in a later block (Kupo serves it from then on)"""
        hidden = sorted({u['datum'][1] for a in addrs for u in state[a] if u['datum'][0] == 'hash' and u['datum'][2] is None})
        if hidden and rng.random() < 0.5:
            revealed[rng.choice(hidden)] = pdata_cbor(gen_pdata(rng, 1)).hex()

    state = {a: [fresh() for _ in range(rng.choice([0, 1, 1, 2, 2, 3]))] for a in addrs}
    slot = rng.choice([1, 2, 1000, 70000000, 2**32])
    responses, index, ledgers = [], {}, []

    def snapshot():
        by_addr = {}
        for a in addrs:
            key = (a, tuple((u['txid'], u['index'], u['datum'][2] if u['datum'][0] == 'hash' else None) for u in state[a]))
            if key not in index:
                index[key] = len(responses)
                responses.append(dict(svc=svc, addr=a, utxos=list(state[a])))
            by_addr[a] = index[key]
        ledgers.append(dict(slot=slot, by_addr=by_addr))
        return len(ledgers) - 1

    def block(must_change=None):
        nonlocal slot
        slot += rng.choice([1, 1, 2, 20, 1000])
        for a in addrs:
            if a == must_change or rng.random() < 0.7:
                keep = [u for u in state[a] if rng.random() < 0.6]
                new = [fresh() for _ in range(rng.choice([0, 1, 1, 2]))]
                if a == must_change and len(keep) == len(state[a]) and not new:
                    new = [fresh()]
                state[a] = (keep + new)[-4:]
        reveal()
        for a in addrs:
            state[a] = [known(u) for u in state[a]]
        return ['block', snapshot()]

    snapshot()
    ops = []
    for _ in range(rng.randint(2, 9)):
        r = rng.random()
        if r < 0.42:
            ops.append(['query', rng.choice(addrs)])
        elif r < 0.66:
            ops.append(block())
        elif r < 0.90:
            ops.append(['tick', rng.choice(DTS)])
        elif r < 0.95 or svc not in POLLS:
            ops.append(['tip'])
        else:
            ops.append(['poll'])
    if rng.random() < 0.25:
        a = rng.choice(addrs)
        ops += [['query', a], ['query', a]]             # ask again at once (the retry after an exception)
    if rng.random() < 0.5:
        a = rng.choice(addrs)
        ops += [['query', a], block(a), ['tick', rng.choice([0, 1, 512, 1023, 1024, 1300, 20 * TICK])], ['query', a],
                ['tick', rng.choice([1024, 2048, 1001 * TICK])], ['query', a]]
    return dict(seq=1, svc=svc, interval=interval, maxsize=maxsize, addrs=addrs, responses=responses, ledgers=ledgers, ops=ops)


def seq_interval(sq):
    return DEFAULT_INTERVAL[sq['svc']] if sq['interval'] is None else sq['interval']


def seq_features(sq):
    """Measured on the run itself: does a queried address see a different answer than at its previous query, and how long
    after the block that changed it."""
    f = dict(requery_after_change=0, requery_within_memo=0, requery_within_interval=0, requery_unchanged=0)
    now, cur, last = 0, 0, {}
    changed_at = {}
    for op in sq['ops']:
        if op[0] == 'tick':
            now += op[1]
        elif op[0] == 'block':
            for a in sq['addrs']:
                if sq['ledgers'][op[1]]['by_addr'][a] != sq['ledgers'][cur]['by_addr'][a]:
                    changed_at[a] = now
            cur = op[1]
        elif op[0] == 'query':
            a = op[1]
            resp = sq['ledgers'][cur]['by_addr'][a]
            if a in last:
                if last[a][1] != resp:
                    f['requery_after_change'] += 1
                    f['requery_within_memo'] += now - last[a][0] < MEMO_TTL[sq['svc']]
                    f['requery_within_interval'] += now - last[a][0] < seq_interval(sq)
                else:
                    f['requery_unchanged'] += 1
            last[a] = (now, resp)
    return f


# ---------------------------------------------------------------- Coq literals
def hxs(h):
    """bytes literal: big-endian groups of 7 bytes as primitive integers (string / constructor-list literals cost
    coqc 40-50 us per character; primitive integers are parsed natively)"""
    b = bytes.fromhex(h)
    if not b:
        return '[]'
    groups = [str(int.from_bytes(b[i:i + 7], 'big')) for i in range(0, len(b), 7)]
    return f'(ub {len(b)} [' + ';'.join(groups) + ']%uint63)'


def r_addr(a):
    return f'(addr_at {ADDRESSES.index(a)})' if a in ADDRESSES else cstr(a)


def r_native(s):
    k = s[0]
    if k == 'sig':
        return f'(NSig {hxs(s[1])})'
    if k == 'after':
        return f'(NAfter {cz(s[1])})'
    if k == 'before':
        return f'(NBefore {cz(s[1])})'
    if k == 'atLeast':
        return f'(NAtLeast {cz(s[1])} {clist([r_native(x) for x in s[2]])})'
    return f'({"NAll" if k == "all" else "NAny"} {clist([r_native(x) for x in s[1]])})'


def r_pdata(d):
    k = d[0]
    if k == 'int':
        return f'(PInt {cz(d[1])})'
    if k == 'bytes':
        return f'(PBytes {hxs(d[1])})'
    if k == 'list':
        return f'(PList {clist([r_pdata(x) for x in d[1]])})'
    if k == 'map':
        return f'(PMap {clist([cpair(r_pdata(a), r_pdata(b)) for a, b in d[1]])})'
    return f'(PConstr {cz(d[1])} {clist([r_pdata(x) for x in d[2]])})'


def r_script(s):
    if s is None:
        return 'None'
    if s[0] == 'plutus':
        return f'(Some (SPlutus {cn(s[1])} {hxs(s[2])}))'
    return f'(Some (SNative {r_native(s[1])}))'


def r_datum(d):
    if d[0] == 'none':
        return 'DNone'
    if d[0] == 'hash':
        return f'(DHash {hxs(d[1])} {copt(None if d[2] is None else hxs(d[2]))})'
    return f'(DInline {hxs(d[1])} {hxs(d[2])} {r_pdata(d[3])})'


def r_utxo(u):
    assets = clist([cpair(hxs(p), clist([cpair(hxs(n), cn(q)) for n, q in names])) for p, names in u['assets']])
    grouped = [[p, n, q] for p, names in u['assets'] for n, q in names]
    idx = []
    for e in u['flat']:                      # the listing order as indices into the grouped listing
        idx.append(grouped.index(e))
    assert sorted(idx) == list(range(len(grouped)))
    flat = '(perm_flat a ' + clist([f'{i}%nat' for i in idx]) + ')'
    return (f'(let a := {assets} in mkU {hxs(u["txid"])} {cn(u["index"])} {cn(u["lovelace"])} a {flat} {r_datum(u["datum"])} '
            f'{r_script(u["script"])} {hxs(u["script_hash"])} {cbool(u["wrapped"])})')


def r_case(c):
    hs = clist([cpair(hxs(u['digests'][0]), hxs(u['digests'][1])) for u in c['utxos']])
    return f'({COQ_SVC[c["svc"]]}, {r_addr(c["addr"])}, {clist([r_utxo(u) for u in c["utxos"]])}, {hs})'


class Malformed(Exception):
    pass


def _int(x):
    if type(x) is not int:
        raise Malformed(f'not an int: {x!r}')
    return x


def _hex(x):
    if not isinstance(x, str) or re.fullmatch(r'([0-9a-f]{2})*', x) is None:
        raise Malformed(f'not hex: {x!r}')
    return hxs(x)


def r_pyd(y):
    k = y[0]
    if k == 'int':
        return f'(YInt {cz(_int(y[1]))})'
    if k == 'bytes':
        return f'(YBytes {_hex(y[1])})'
    if k == 'bytestring':
        return f'(YByteString {_hex(y[1])})'
    if k == 'tag':
        return f'(YTag {cz(_int(y[1]))} {clist([r_pyd(x) for x in y[2]])})'
    if k == 'tag102':
        return f'(YTag102 {cz(_int(y[1]))} {clist([r_pyd(x) for x in y[2]])})'
    if k == 'ilist':
        return f'(YIList {clist([r_pyd(x) for x in y[1]])})'
    if k == 'dict':
        return f'(YDict {clist([cpair(r_pyd(a), r_pyd(b)) for a, b in y[1]])})'
    raise Malformed(f'unexpected datum structure {y!r}')


def r_impl_native(s):
    k = s[0]
    if k == 'sig':
        return f'(NSig {_hex(s[1])})'
    if k in ('after', 'before'):
        return f'({"NAfter" if k == "after" else "NBefore"} {cz(_int(s[1]))})'
    if k == 'atLeast':
        return f'(NAtLeast {cz(_int(s[1]))} {clist([r_impl_native(x) for x in s[2]])})'
    if k in ('all', 'any'):
        return f'({"NAll" if k == "all" else "NAny"} {clist([r_impl_native(x) for x in s[1]])})'
    raise Malformed(f'unexpected native script {s!r}')


def r_impl_utxo(o):
    if not all(32 <= ord(ch) < 127 and ch != '"' for ch in o['addr']):
        raise Malformed('address text')
    assets = clist([cpair(_hex(p), clist([cpair(_hex(n), cz(_int(q))) for n, q in names])) for p, names in o['assets']])
    d = o['datum']
    if d is None:
        datum = 'None'
    elif d[0] == 'raw':
        datum = f'(Some (ARaw {_hex(d[1])}))'
    elif d[0] == 'data':
        datum = f'(Some (AData {r_pyd(d[1])}))'
    else:
        raise Malformed(f'unexpected datum {d!r}')
    s = o['script']
    if s is None:
        script = 'None'
    elif s[0] == 'plutus':
        script = f'(Some (SPlutus {cn(_int(s[1]))} {_hex(s[2])}))'
    elif s[0] == 'native':
        script = f'(Some (SNative {r_impl_native(s[1])}))'
    else:
        raise Malformed(f'unexpected script {s!r}')
    dh = 'None' if o['datum_hash'] is None else f'(Some {_hex(o["datum_hash"])})'
    return (f'(mkA {_hex(o["txid"])} {cz(_int(o["index"]))} {r_addr(o["addr"])} {cz(_int(o["lovelace"]))} {assets} '
            f'{dh} {datum} {script})')


def r_impl(res):
    if 'err' in res:
        return f'(Err {cstr(res["err"].replace(":", "_"))})'
    return f'(Ok {clist([r_impl_utxo(o) for o in res["ok"]])})'


def r_ledger(sq, k, base):
    by = sq['ledgers'][k]['by_addr']
    return 'L ' + clist([f'({ADDRESSES.index(a)}, {base + by[a]})%nat' for a in sq['addrs']])


def r_seq(sq, base):
    """seqcase literal; `base` = position of the run's first response in the shard's `cases`."""
    ops = []
    for op in sq['ops']:
        if op[0] == 'tick':
            ops.append(f'OTick {cn(op[1])}')
        elif op[0] == 'block':
            ops.append(f'OBlock {cn(sq["ledgers"][op[1]]["slot"])} ({r_ledger(sq, op[1], base)})')
        elif op[0] == 'query':
            ops.append(f'OQuery {r_addr(op[1])}')
        else:
            ops.append('OTip' if op[0] == 'tip' else 'OPoll')
    mx = DEFAULT_MAXSIZE[sq['svc']] if sq['maxsize'] is None else sq['maxsize']
    return (f'({COQ_SVC[sq["svc"]]}, {cn(seq_interval(sq))}, {cn(mx)}, {cn(sq["ledgers"][0]["slot"])}, '
            f'{r_ledger(sq, 0, base)}, {clist(ops)})')


def r_iobs(o):
    if o is None:
        return 'INone'
    if 'slot' in o:
        return f'ISlot {cn(o["slot"])}' if type(o['slot']) is int and o['slot'] >= 0 else 'INone'
    if 'polled' in o:
        return f'IPolled {cbool(bool(o["polled"]))}'
    try:
        return f'IAns {r_impl(o)}'
    except Malformed:
        return 'IAns (Err "MALFORMED-OUTPUT")'


# ---------------------------------------------------------------- pass 1: Coq renders the documents
_TOK = re.compile(r'(\d+)%uint63|(\[)|(\])')


def parse_coq_packed(out):
    """Parse the printed value of type list (list (list int)): per case [key; text; key; text; ...], every string as
    [length; 7-byte big-endian groups...] of primitive integers."""
    start = out.index('= ') + 2
    end = out.rindex(': list (list')
    cases, docs, cur, depth = [], None, None, 0
    for m in _TOK.finditer(out, start, end):
        if m.group(1) is not None:
            cur.append(int(m.group(1)))
        elif m.group(2):
            depth += 1
            if depth == 2:
                docs = []
            elif depth == 3:
                cur = []
        else:
            if depth == 3:
                n, groups = cur[0], cur[1:]
                assert len(groups) == (n + 6) // 7, (n, len(groups))
                b = b''.join(g.to_bytes(7 if (i + 1) * 7 <= n else n - i * 7, 'big') for i, g in enumerate(groups))
                docs.append(b.decode('ascii'))
            elif depth == 2:
                cases.append(docs)
            depth -= 1
    assert depth == 0
    return cases


SHARD = 96


def coq_render(groups):
    """groups: list of (stem, [cases]).  Writes <stem>.v = Definition cases (compiled to <stem>.vo, re-used by pass 2) + the
    documents of every case; returns per group the list of {key: text}."""
    d = os.path.join(C.WORK, PID)
    os.makedirs(d, exist_ok=True)
    for fn in os.listdir(d):
        if fn.startswith(('render_', '.render_', 'srender_', '.srender_')):
            os.remove(os.path.join(d, fn))
    pending = []
    for g, (stem, part) in enumerate(groups):
        p = os.path.join(d, stem + '.v')
        with open(p, 'w') as f:
            f.write(HEADER + 'Definition cases : list case :=\n' + clist([r_case(c) for c in part]) + '.\n'
                    'Eval vm_compute in (map case_docs cases).\n')
        pending.append((g, len(part), p))
    out_docs = [None] * len(groups)
    running = []
    while pending or running:
        while pending and len(running) < C.NPROC:
            g, n, p = pending.pop(0)
            running.append((g, n, subprocess.Popen(['coqc'] + C.QFLAGS + [p], cwd=d, stdout=subprocess.PIPE,
                                                    stderr=subprocess.PIPE, text=True)))
        g, n, pr = running.pop(0)
        out, err = pr.communicate()
        if pr.returncode != 0:
            raise RuntimeError('render pass failed: ' + (out + err)[-2000:])
        docs = parse_coq_packed(out) if n else []
        assert len(docs) == n, (len(docs), n)
        res = []
        for dl in docs:
            assert len(dl) % 2 == 0
            res.append({dl[i]: dl[i + 1] for i in range(0, len(dl), 2)})
        out_docs[g] = res
    return out_docs


def seq_shards(seqs):
    """Runs grouped so that a shard holds at most ~SHARD responses; a run's responses stay together."""
    shards, cur, n = [], [], 0
    for i, sq in enumerate(seqs):
        if cur and n + len(sq['responses']) > SHARD:
            shards.append(cur)
            cur, n = [], 0
        cur.append(i)
        n += len(sq['responses'])
    if cur:
        shards.append(cur)
    return shards


# ---------------------------------------------------------------- pass 2
def render_pass2(shard_no, results):
    """cases_k.v: the adapter outputs of shard k, zipped with the cases of render_k.vo."""
    items = []
    for r in results:
        try:
            items.append(r_impl(r))
        except Malformed:
            items.append('(Err "MALFORMED-OUTPUT")')
    body = f'Require Import render_{shard_no}.\n'
    body += 'Definition impl : list (result (list autxo)) :=\n' + clist(items) + '.\n'
    body += 'Definition zipped := combine (seq 0 (length cases)) (combine cases impl).\n'
    body += 'Eval vm_compute in (map fst (filter (fun c => negb (c20_corr (fst (snd c)) (snd (snd c)))) zipped)).\n'
    body += 'Eval vm_compute in (map fst (filter (fun c => negb (c20_oracle (fst (snd c)) (snd (snd c)))) zipped)).\n'
    return body


def render_pass2_seq(shard_no, sqs, results):
    """the runs of sequence shard k (ledgers point into the cases of srender_k.vo) and what the adapter returned per operation"""
    lits, base = [], 0
    for sq in sqs:
        lits.append(r_seq(sq, base))
        base += len(sq['responses'])
    impl = []
    for sq, r in zip(sqs, results):
        obs = r.get('seq')
        if not isinstance(obs, list) or len(obs) != len(sq['ops']):
            obs = [None] * len(sq['ops'])
        impl.append(clist([r_iobs(o) for o in obs]))
    body = f'Require Import srender_{shard_no}.\n'
    body += 'Definition dcase : case := (Blockfrost, "", [], []).\n'
    body += 'Definition L (l : list (nat * nat)) : ledger := map (fun kj => (addr_at (fst kj), nth (snd kj) cases dcase)) l.\n'
    body += 'Definition seqs : list seqcase :=\n' + clist(lits) + '.\n'
    body += 'Definition impl : list (list iobs) :=\n' + clist(impl) + '.\n'
    body += 'Definition zipped := combine (seq 0 (length seqs)) (combine seqs impl).\n'
    body += 'Eval vm_compute in (map fst (filter (fun c => negb (seq_corr (fst (snd c)) (snd (snd c)))) zipped)).\n'
    body += 'Eval vm_compute in (map fst (filter (fun c => negb (seq_oracleb (fst (snd c)) (snd (snd c)))) zipped)).\n'
    return body


def python_side_fail(case, res):
    """Address bytes of the returned object against the independently decoded pool entry."""
    if 'ok' not in res:
        return False
    return any(o.get('addr_bytes') != ADDR_BYTES[case['addr']] for o in res['ok'])


def python_side_fail_seq(sq, res):
    obs = res.get('seq') or []
    return any(op[0] == 'query' and isinstance(o, dict) and python_side_fail({'addr': op[1]}, o) for op, o in zip(sq['ops'], obs))


def run(cases, seqs=()):
    """Returns docs/results/mismatch set/oracle-failure set for the single responses, the same four for the runs, errors."""
    seqs = list(seqs)
    groups = [(f'render_{k // SHARD}', cases[k:k + SHARD]) for k in range(0, len(cases), SHARD)]
    sshards = seq_shards(seqs)
    for n, idx in enumerate(sshards):
        groups.append((f'srender_{n}', [r for i in idx for r in seqs[i]['responses']]))
    rendered = coq_render(groups)
    nord = len(groups) - len(sshards)
    docs = [d for g in rendered[:nord] for d in g]
    sdocs = [None] * len(seqs)
    for n, idx in enumerate(sshards):
        pos = 0
        for i in idx:
            k = len(seqs[i]['responses'])
            sdocs[i] = rendered[nord + n][pos:pos + k]
            pos += k
    payload = [{'svc': c['svc'], 'addr': c['addr'], 'docs': d} for c, d in zip(cases, docs)]
    payload += [{'seq': 1, 'svc': sq['svc'], 'interval': sq['interval'], 'maxsize': sq['maxsize'], 'responses': sd,
                 'ledgers': sq['ledgers'], 'ops': sq['ops']} for sq, sd in zip(seqs, sdocs)]
    allres = C.run_impl('adapters_driver', {'cases': payload})
    results, sresults = allres[:len(cases)], allres[len(cases):]
    mism, ofail, smism, sofail, errs = set(), set(), set(), set(), []
    for i, (c, r) in enumerate(zip(cases, results)):
        if 'driver_error' in r:
            errs.append(r['driver_error'] + '\n' + r.get('tb', ''))
        elif python_side_fail(c, r):
            ofail.add(i)
    for i, (sq, r) in enumerate(zip(seqs, sresults)):
        if 'driver_error' in r:
            errs.append(r['driver_error'] + '\n' + r.get('tb', ''))
        elif python_side_fail_seq(sq, r):
            sofail.add(i)
    if errs:
        return docs, results, mism, ofail, sdocs, sresults, smism, sofail, errs
    shards = [render_pass2(k // SHARD, results[k:k + SHARD]) for k in range(0, len(cases), SHARD)]
    shards += [render_pass2_seq(n, [seqs[i] for i in idx], [sresults[i] for i in idx]) for n, idx in enumerate(sshards)]
    for sn, (ok, lists, log) in enumerate(C.run_cases(PID, shards, HEADER)):
        if not ok or len(lists) != 2:
            errs.append(log[-1500:])
        elif sn < nord:
            mism.update(sn * SHARD + j for j in lists[0]); ofail.update(sn * SHARD + j for j in lists[1])
        else:
            idx = sshards[sn - nord]
            smism.update(idx[j] for j in lists[0]); sofail.update(idx[j] for j in lists[1])
    return docs, results, mism, ofail, sdocs, sresults, smism, sofail, errs


def nontrivial(c):
    return any(len(u['flat']) >= 2 or u['datum'][0] != 'none' or u['script'] for u in c['utxos'])


def classify(case, res, model_agrees):
    if 'driver_error' in res:
        return 'exception'
    if in_region(case) and model_agrees and 'err' in res:
        return REGION                # the adapter raises exactly as the faithful model says it does for this script kind
    if in_datum_region(case) and not in_region(case) and model_agrees:
        return REGION_DATUM          # raises / collapses the map exactly as the faithful model of from_dict does
    return 'unfaithful'


def gen_cases(ctx, per_svc, n_region):
    cases = []
    for svc in SVCS:
        for _ in range(per_svc):
            cases.append(gen_case(ctx.rng, svc))
    for svc in ('ogmios_v5', 'ogmios_v6', 'kupo', 'cli'):
        for _ in range(n_region):
            cases.append(gen_case(ctx.rng, svc, region=True))
    for _ in range(2 * n_region):
        cases.append(gen_datum_region_case(ctx.rng))
    # more UTxOs at one address than the service hands out per page (Blockfrost: 100)
    big = gen_case(ctx.rng, 'blockfrost')
    us = [gen_utxo(ctx.rng, 'blockfrost', None) for _ in range(ctx.rng.choice([101, 137]))]
    for k, u in enumerate(us):
        u['index'] = k
        u['assets'], u['flat'], u['datum'] = [], [], ['none']
    big['utxos'] = us
    cases.append(big)
    return cases


def directed_seq(svc):
    """Seed-independent run per service with the constructor defaults: two addresses; query both; a block changes the first;
    1.27 s later query both again; another block changes both; 2 s later query; 1001 s later query."""
    import random
    rng = random.Random(f'C20-directed-{svc}')
    sq = None
    while sq is None or len(sq['addrs']) != 2 or len(sq['ops']) > 4:
        sq = gen_seq(rng, svc)
    a, b = sq['addrs']
    base = sq['responses'][sq['ledgers'][0]['by_addr'][a]]['utxos'], sq['responses'][sq['ledgers'][0]['by_addr'][b]]['utxos']

    def fresh():
        return gen_utxo(rng, svc, None)
    states = [(list(base[0]) + [fresh()], list(base[1]) + [fresh()])]
    states.append((states[0][0][1:] + [fresh()], states[0][1]))
    states.append((states[1][0][1:] + [fresh()], states[1][1][1:] + [fresh()]))
    responses, ledgers = [], []
    for k, (ua, ub) in enumerate(states):
        by = {}
        for addr, us in ((a, ua), (b, ub)):
            found = [i for i, r in enumerate(responses) if r['addr'] == addr and r['utxos'] == us]
            if not found:
                responses.append(dict(svc=svc, addr=addr, utxos=us))
                found = [len(responses) - 1]
            by[addr] = found[0]
        ledgers.append(dict(slot=1000 + 20 * k, by_addr=by))
    ops = [['query', a], ['query', b], ['block', 1], ['tick', 1300], ['query', a], ['query', b], ['block', 2], ['tick', 2048],
           ['query', b], ['query', a], ['tick', 1001 * TICK], ['query', a], ['query', b]]
    return dict(seq=1, svc=svc, interval=None if svc in ('blockfrost', 'kupo', 'ogmios_v6') else 1000 * TICK, maxsize=None,
                addrs=[a, b], responses=responses, ledgers=ledgers, ops=ops)


def directed_retry(svc, first):
    """Seed-independent run: one address reports a UTxO the adapter handles, one whose reference script kind it does NOT
    handle (the whole call raises: known finding), and another it handles — the unsupported one first or in the middle.  The
    caller asks, asks again at once, waits past the refetch interval and asks again: each time the adapter must raise or
    answer completely, never hand out what a failed call left behind."""
    import random
    rng = random.Random(f'C20-retry-{svc}-{first}')
    a = ADDRESSES[0]
    good = [gen_utxo(rng, svc, None), gen_utxo(rng, svc, 'plutus')]
    bad = gen_utxo(rng, svc, 'plutus_v3' if svc == 'cli' else 'native')
    us = [bad] + good if first else [good[0], bad, good[1]]
    ids = set()
    for u in us:
        while (u['txid'], u['index']) in ids:
            u['index'] += 1
        ids.add((u['txid'], u['index']))
    responses = [dict(svc=svc, addr=a, utxos=us), dict(svc=svc, addr=a, utxos=good)]
    ledgers = [dict(slot=5000, by_addr={a: 0}), dict(slot=5040, by_addr={a: 1})]
    ops = [['query', a], ['query', a], ['tick', 2048], ['query', a], ['block', 1], ['tick', 1001 * TICK], ['query', a], ['query', a]]
    return dict(seq=1, svc=svc, interval=None if svc in ('blockfrost', 'kupo', 'ogmios_v6') else 1000 * TICK, maxsize=None,
                addrs=[a], responses=responses, ledgers=ledgers, ops=ops)


def gen_seqs(ctx, per_svc):
    return ([directed_seq(svc) for svc in SVCS]
            + [directed_retry(svc, first) for svc in SVCS if svc != 'blockfrost' for first in (True, False)]
            + [gen_seq(ctx.rng, svc) for svc in SVCS for _ in range(per_svc)])


def seq_nontrivial(sq):
    f = seq_features(sq)
    return f['requery_after_change'] > 0


def correspond(ctx, per_svc=None, seq_per_svc=None):
    per_svc = per_svc or ctx.n(270, 5000)
    seq_per_svc = ctx.n(31, 300) if seq_per_svc is None else seq_per_svc
    cases = gen_cases(ctx, per_svc, ctx.n(6, 40))
    seqs = gen_seqs(ctx, seq_per_svc)
    t0 = time.time()
    docs, results, mism, ofail, sdocs, sresults, smism, sofail, errs = run(cases, seqs)
    if errs:
        raise RuntimeError('harness failure: ' + errs[0])
    hist = {s: 0 for s in SVCS}
    feat = dict(ada_only=0, multi_name_policy=0, empty_name=0, qty_ge_2_63=0, datum_hash=0, datum_hash_resolved=0, inline_datum=0,
                plutus_script=0, native_script=0, wrapped_script=0, shuffled_flat_order=0, multi_utxo=0, region_cases=0, datum_region_cases=0)
    for c in cases:
        hist[c['svc']] += 1
        feat['multi_utxo'] += len(c['utxos']) > 1
        feat['region_cases'] += in_region(c)
        feat['datum_region_cases'] += in_datum_region(c)
        for u in c['utxos']:
            feat['ada_only'] += not u['assets']
            feat['multi_name_policy'] += any(len(ns) > 1 for _, ns in u['assets'])
            feat['empty_name'] += any(n == '' for _, n, _ in u['flat'])
            feat['qty_ge_2_63'] += any(q >= 2**63 for _, _, q in u['flat'])
            feat['datum_hash'] += u['datum'][0] == 'hash'
            feat['datum_hash_resolved'] += u['datum'][0] == 'hash' and u['datum'][2] is not None
            feat['inline_datum'] += u['datum'][0] == 'inline'
            feat['plutus_script'] += bool(u['script']) and u['script'][0] == 'plutus'
            feat['native_script'] += bool(u['script']) and u['script'][0] == 'native'
            feat['wrapped_script'] += bool(u['wrapped'] and u['script'])
            feat['shuffled_flat_order'] += u['flat'] != [[p, n, q] for p, ns in u['assets'] for n, q in ns]
    errkinds = {}
    for r in results:
        if 'err' in r:
            errkinds[r['err']] = errkinds.get(r['err'], 0) + 1
    sfeat = dict(runs=len(seqs), operations=0, queries=0, blocks=0, ticks=0, tip_reads=0, polls=0, responses_rendered=0,
                 requery_after_change=0, requery_within_memo=0, requery_within_interval=0, requery_unchanged=0,
                 small_cache=0, empty_answers=0, runs_per_service={s: 0 for s in SVCS})
    for sq in seqs:
        sfeat['runs_per_service'][sq['svc']] += 1
        sfeat['operations'] += len(sq['ops'])
        sfeat['responses_rendered'] += len(sq['responses'])
        sfeat['small_cache'] += sq['maxsize'] is not None
        sfeat['empty_answers'] += sum(not r['utxos'] for r in sq['responses'])
        for op in sq['ops']:
            sfeat[{'query': 'queries', 'block': 'blocks', 'tick': 'ticks', 'tip': 'tip_reads', 'poll': 'polls'}[op[0]]] += 1
        for k, v in seq_features(sq).items():
            sfeat[k] += v
    distinct = len({C.canon_hash(c) for c in cases if nontrivial(c)}) + len({C.canon_hash(sq) for sq in seqs if seq_nontrivial(sq)})

    def pack(i):
        return {'input': cases[i], 'served': docs[i], 'impl': results[i], 'region': classify(cases[i], results[i], i not in mism)}

    def seq_region(i):
        # the run behaves exactly as the faithful model (which raises for the script kinds the adapter does not handle and
        # nothing else goes wrong): the listed finding; anything else is a stale or unfaithful answer
        sq, obs = seqs[i], (sresults[i].get('seq') or [])
        raised = [o for op, o in zip(sq['ops'], obs) if op[0] == 'query' and isinstance(o, dict) and 'err' in o]
        if i not in smism and raised and any(in_region(r) for r in sq['responses']):
            return REGION
        return 'stale-or-unfaithful-answer-in-sequence'

    def spack(i):
        return {'input': seqs[i], 'served': sdocs[i], 'impl': sresults[i], 'model_agrees': i not in smism,
                'region': seq_region(i)}
    return dict(
        evaluations=len(cases) + len(seqs), distinct_nontrivial=distinct,
        rule='per service: responses of 1-3 UTxO models (0-8 assets over 1-4 policies, names of 0-32 bytes incl. empty, "lovelace", '
             'hex-looking and "."/"#" names, quantities from a boundary set up to 2^70, ADA-only entries, grouped or shuffled '
             'flat order, no datum / datum hash (resolvable or not) / inline datum with a generated Plutus-data value, no script / '
             'Plutus v1-v3 (plain or CBOR-wrapped at the script endpoint) / native script), rendered to JSON text by the Coq '
             'render_X; plus a few responses inside each known-finding region (unsupported reference script kinds; cardano-cli '
             'inline datums with non-int/bytes or repeated map keys); non-trivial = some UTxO has >= 2 '
             'assets, a datum or a script; distinct by hash. Plus per service runs on ONE adapter instance: 1-3 addresses with '
             '0-3 UTxOs each, 2-15 operations out of {clock tick of 0 .. 1001 s, block (tip slot +1..+1000; per address outputs '
             'spent / created), utxos(address), last_block_slot, _is_chain_tip_updated()}, refetch interval from '
             '{default, 1000 s, 20 s, 2 s, 0.5 s, 0}, utxo_cache_size from {default, 1, 2, 3}; a run is non-trivial if an '
             'address is queried again after the service changed its answer; plus one seed-independent directed run per service '
             '(query, block, 1.27 s, query, block, 2 s, query, 1001 s, query over two addresses, constructor defaults)',
        samples=[{'input': cases[0], 'served': docs[0], 'impl': results[0]},
                 {'input': cases[len(cases) // 2], 'served': docs[len(cases) // 2], 'impl': results[len(cases) // 2]}]
                + ([{'input': seqs[0], 'impl': sresults[0]}] if seqs else []),
        per_service=hist, features=feat, sequence_features=sfeat, impl_error_kinds=errkinds,
        traces_validated_against_impl=len(cases) + len(seqs),
        compared='adapter output (every returned UTxO: tx id, index, re-encoded address text, lovelace, ordered dict of '
                 'ordered dicts, datum hash, datum bytes/structure, script kind+bytes/structure; or exception kind) = '
                 'parse_X (render_X us) exactly; oracle = faithfulb of every modelled UTxO against the adapter output + '
                 'address bytes against the independently decoded pool; runs: every observation (answers, tip slots, poll '
                 'results) = state machine over parse_X (render_X ..) exactly; oracle = every answer is faithfulb to a ledger '
                 'state current at the query or at an event less than the memo ttl earlier',
        correspond_s=round(time.time() - t0, 1),
        mismatches=[pack(i) for i in sorted(mism)[:20]] + [spack(i) for i in sorted(smism)[:10]],
        oracle_fail=[pack(i) for i in sorted(ofail, key=lambda i: (in_region(cases[i]) or in_datum_region(cases[i]), i))[:80]]
                    + [spack(i) for i in sorted(sofail, key=lambda i: len(json.dumps(seqs[i])))[:10]],
    )


def search(ctx, mism):
    ctx.rng.seed(f'search-{ctx.seed}')
    r = correspond(ctx, 800 if ctx.quick else 12000, 150 if ctx.quick else 2000)
    bad = [f for f in r['oracle_fail'] if f['region'] not in (REGION, REGION_DATUM)]
    return bad[0] if bad else None


def replay(ctx, rep):
    case = rep['case']['input']
    if case.get('seq'):
        docs, results, mism, ofail, sdocs, sresults, smism, sofail, errs = run([], [case])
        print('run (one adapter instance):', json.dumps({k: v for k, v in case.items() if k != 'responses'}))
        now, cur = 0, 0
        for op, o in zip(case['ops'], (sresults[0].get('seq') or [None] * len(case['ops'])) if sresults else []):
            if op[0] == 'tick':
                now += op[1]
            elif op[0] == 'block':
                cur = op[1]
            elif op[0] == 'query':
                resp = case['responses'][case['ledgers'][cur]['by_addr'][op[1]]]
                want = [(u['txid'][:8], u['index']) for u in resp['utxos']]
                got = [(u['txid'][:8], u['index']) for u in o['ok']] if isinstance(o, dict) and 'ok' in o else o
                print(f'  t={now / TICK:.3f}s tip={case["ledgers"][cur]["slot"]} utxos({op[1][:16]}..): service reports {want}; adapter returned {got}')
        if errs:
            print('harness errors:', errs[0])
        print('model agrees:', 0 not in smism, ' property oracle holds:', 0 not in sofail)
        return 1 if sofail else 0
    docs, results, mism, ofail, _, _, _, _, errs = run([case])
    print('input:', json.dumps(case))
    print('served documents (rendered by Coq):', json.dumps(docs[0]))
    print('implementation:', json.dumps(results[0]))
    if errs:
        print('harness errors:', errs[0])
    print('model agrees:', 0 not in mism, ' property oracle holds:', 0 not in ofail)
    return 1 if ofail else 0
