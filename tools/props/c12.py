"""C12 — the script integrity hash matches the witnesses actually shipped.
Scenario generator, driver and Coq literal printer are shared with C11 (tools/props/c11.py)."""
import hashlib, json, os
from lib import common as C
from props import c11 as G

PID = 'C12'
TARGETS = ['props/C12.vo', 'theories/ScriptHashOracle.vo']
LEVEL = 'proof'
KNOWN_REGIONS = []

MANIFEST = dict(
    text='Theorems (Coq, H abstract): the language-view map the code emits has strictly ascending keys in canonical '
         '(length, bytes) order for every subset of {V1,V2,V3} and equals the ledger\'s language views whatever the order in '
         'which the builder met the scripts; the PlutusV1 parameter list is independent of the dict order and ascending in '
         'its keys (names by code points, integer positions numerically: a list-shaped cost model enters in list order '
         'whatever its length); after a successful build the body\'s script data hash is '
         'H(bytes of witness entry 5 (empty map when absent) ++ bytes of witness entry 4 (nothing when absent) ++ enc(language '
         'views of the Plutus versions used)), absent exactly when there are neither redeemers nor datums — for map and list '
         'redeemers and after execution units were replaced; a Plutus version that merely sits on a collateral or read-only '
         'reference UTxO contributes no language view (C12_inert_calls). Oracle: the preimage is rebuilt in Coq from byte slices of '
         'tx.to_cbor() and the specification\'s language views, hashed via a BLAKE2b table and compared with body field 11.',
    note='Trusted: Coq kernel+vm_compute; hand models Redeemers.v/ScriptHash.v validated by differential runs; generator; '
         'driver; hashlib.blake2b as H (lookup table, a missing entry fails loudly). Premise sound12: redeemers go with Plutus '
         'scripts and vice versa, a script hash determines the script.',
    technique='Coq proof (sorted-list uniqueness, state invariants) + correspondence + oracle on transaction byte slices',
    ref='C12')
TRUSTED = [
    'Coq 8.16.1 kernel incl. vm_compute (no native_compute); no axioms (see Print Assumptions lines)',
    'hand model coq/theories/ScriptHash.v of utils.script_data_hash, CostModels.to_shallow_primitive, '
    'TransactionBuilder.script_data_hash/redeemers(), on top of Redeemers.v; tied by correspondence on byte slices',
    'tools/impl/plutusbuild_driver.py, tools/props/c11.py (generator, printer), tools/props/c12.py (CBOR walker, H table)',
    'hashlib.blake2b(digest_size=32) as the abstract H; Cbor.dec as the slicer of the transaction bytes',
]
ASSUMPTIONS = [
    'sound12: every redeemer is handed over with a Plutus script and every Plutus script with a redeemer, native_scripts are '
    'native, equal script hashes mean equal scripts (other calls are rejected by the ledger before the hash matters)',
    'absent redeemers enter the hash as the empty map a0 (Conway), absent datums as the empty string',
    'a language whose cost model is missing from the protocol parameters contributes an empty parameter list',
    'PlutusV1 parameters are ordered by key — names by code points, integer positions numerically —, PlutusV2/V3 '
    'parameters in the order the chain context supplies them (generated integer positions are 0..n-1 and, for V2/V3, in '
    'ascending dict order, which is what enumerate() in the cardano-cli backend yields); one cost-model dict never mixes '
    'str and int keys (sorted() raises TypeError on such a dict)',
]


# ------------------------------------------------------------------ CBOR walker (harness side, for the H table)
def _arg(b, i):
    ai = b[i] & 31
    if ai < 24:
        return ai, i + 1
    n = {24: 1, 25: 2, 26: 4, 27: 8}[ai]
    return int.from_bytes(b[i + 1:i + 1 + n], 'big'), i + 1 + n


def skip(b, i):
    """index after the data item starting at i"""
    m, ai = b[i] >> 5, b[i] & 31
    if m == 7:
        return i + 1 + {24: 1, 25: 2, 26: 4, 27: 8}.get(ai, 0)
    if ai == 31:
        i += 1
        while b[i] != 0xff:
            i = skip(b, i)
            if m == 5:
                i = skip(b, i)
        return i + 1
    n, j = _arg(b, i)
    if m in (0, 1):
        return j
    if m in (2, 3):
        return j + n
    if m == 4:
        for _ in range(n):
            j = skip(b, j)
        return j
    if m == 5:
        for _ in range(2 * n):
            j = skip(b, j)
        return j
    return skip(b, j)


def map_slices(b, i):
    assert b[i] >> 5 == 5 and b[i] & 31 != 31
    n, j = _arg(b, i)
    out = {}
    for _ in range(n):
        k_end = skip(b, j)
        v_end = skip(b, k_end)
        out[bytes(b[j:k_end])] = bytes(b[k_end:v_end])
        j = v_end
    return out, j


def tx_slices(tx):
    assert tx[0] == 0x84
    body, j = map_slices(tx, 1)
    wits, _ = map_slices(tx, j)
    h = body.get(b'\x0b')
    return wits.get(b'\x05'), wits.get(b'\x04'), (h[2:] if h is not None else None)


def cint(n):
    assert -2 ** 64 <= n < 2 ** 64
    return G.e_int(n)


def cm_of(S, version):
    """the cost-model dict of PlutusV<version> as the chain context serves it: integer keys where cm_int_keys says so"""
    cm = S['cost_models'].get(f'PlutusV{version}')
    if cm is not None and f'PlutusV{version}' in (S.get('cm_int_keys') or []):
        cm = {int(k): v for k, v in cm.items()}
    return cm


def views_bytes(S, langs):
    """language views of the given ledger language ids (0, 1, 2) — harness-side replica, only used to fill the H table"""
    out = []
    for l in [x for x in (1, 2, 0) if x in langs]:
        cm = cm_of(S, l + 1) or {}
        if l == 0:
            inner = b'\x9f' + b''.join(cint(cm[k]) for k in sorted(cm)) + b'\xff'
            out.append(G.e_bytes(b'\x00') + G.e_bytes(inner))
        else:
            out.append(G.e_int(l) + G.head(4, len(cm)) + b''.join(cint(v) for v in cm.values()))
    return G.head(5, len(out)) + b''.join(out)


def langs_of(S):
    """Plutus language ids of the scripts the calls hand over or find"""
    by_hash = {G.script_hash(sp): sp['lang'] for sp in S['scripts']}
    langs = set()
    for op in S['ops']:
        if op[0] == 'sinput':
            l = by_hash.get(bytes.fromhex(S['utxos'][op[1]]['pay']), 0)
        elif op[0] in ('mint', 'wdrl', 'cert'):
            src = op[1]
            sid = src[1] if src[0] == 'script' else S['utxos'][src[1]]['script']
            l = S['scripts'][sid]['lang'] if sid is not None else 0
        else:
            continue
        if l:
            langs.add(l - 1)
    return langs


def h_table(S, R):
    tx = bytes.fromhex(R['tx'])
    s5, s4, _ = tx_slices(tx)
    f5 = s5 if s5 is not None else b'\xa0'
    f4 = s4 if s4 is not None else b''
    cands = {views_bytes(S, langs_of(S))}
    if s5 is None:
        cands.add(b'\xa0')
    elif not langs_of(S):
        cands.add(bytes.fromhex(R['dflt']))
    return [(f5 + f4 + v, hashlib.blake2b(f5 + f4 + v, digest_size=32).digest()) for v in sorted(cands)]


# ------------------------------------------------------------------ shape statistics (harness side, not part of the verdict)
def noncanonical_map(b, i=0):
    """(some definite-length map inside the item at b[i:] has its keys in an order other than the canonical one
    (shorter encoded key first, then bytewise), index after the item)"""
    m, ai = b[i] >> 5, b[i] & 31
    if m == 7:
        return False, skip(b, i)
    if ai == 31:
        bad, i = False, i + 1
        while b[i] != 0xff:
            x, i = noncanonical_map(b, i)
            bad = bad or x
        return bad, i + 1
    n, j = _arg(b, i)
    if m in (0, 1):
        return False, j
    if m in (2, 3):
        return False, j + n
    bad = False
    if m == 4:
        for _ in range(n):
            x, j = noncanonical_map(b, j)
            bad = bad or x
        return bad, j
    if m == 5:
        keys = []
        for _ in range(n):
            k0 = j
            x, j = noncanonical_map(b, j)
            keys.append(bytes(b[k0:j]))
            y, j = noncanonical_map(b, j)
            bad = bad or x or y
        return bad or keys != sorted(keys, key=lambda k: (len(k), k)), j
    return noncanonical_map(b, j)


def data_forms(S):
    """[(form, CBOR bytes)] of the datums the calls hand over as objects, and of the redeemer data"""
    dat, red = [], []
    for op in S['ops']:
        if op[0] == 'sinput':
            if op[3] is not None:
                dat.append((op[5] if len(op) > 5 else 'raw', bytes.fromhex(op[3])))
            d = S['utxos'][op[1]]['datum']
            if d is not None and d[0] == 'inline':
                dat.append((d[2] if len(d) > 2 else 'raw', bytes.fromhex(d[1])))
            r = op[4]
        elif op[0] == 'outdatum':
            dat.append((op[2] if len(op) > 2 else 'raw', bytes.fromhex(op[1])))
            r = None
        elif op[0] in ('mint', 'wdrl', 'cert'):
            r = op[2]
        else:
            r = None
        if r is not None:
            red.append((r.get('form', 'raw'), bytes.fromhex(r['data'])))
    return dat, red


def cm_shape(S, version):
    cm = S['cost_models'].get(f'PlutusV{version}')
    if cm is None:
        return 'missing'
    if f'PlutusV{version}' in (S.get('cm_int_keys') or []):
        return 'int-positions'
    return 'padded-decimal-strings' if cm and all(k.isdigit() for k in cm) else 'names'


def corpus_cases():
    """directed regression scenarios (corpus/C12.json): PlutusV1 / V2 / V3 with cost models keyed by integer positions of
    9..166 entries (ascending and scrambled dict order) and by zero-padded strings; datums and redeemer data containing
    maps in non-canonical insertion order, handed over as dict / RawPlutusData / PlutusData dataclass / RawCBOR"""
    p = os.path.join(C.VERIF, 'corpus', 'C12.json')
    return json.load(open(p)) if os.path.exists(p) else []


# ------------------------------------------------------------------ Coq literals
def r_cm(S):
    items = []
    for v in (1, 2, 3):
        cm = cm_of(S, v)
        if cm is None:
            continue
        if all(isinstance(k, int) for k in cm) and f'PlutusV{v}' in (S.get('cm_int_keys') or []):
            if list(cm) == list(range(len(cm))):               # {i: v for i, v in enumerate(values)}
                p = f'ByPos (enumerate {C.clist([C.cz(x) for x in cm.values()])})'
            else:
                p = f'ByPos {C.clist([f"({C.cz(k)}, {C.cz(x)})" for k, x in cm.items()])}'
        else:
            p = f'ByName {C.clist([f"({C.cstr(k)}, {C.cz(x)})" for k, x in cm.items()])}'
        items.append(f'({C.cn(v)}, {p})')
    return C.clist(items)


HEADER = '''From Coq Require Import NArith ZArith String List Bool.
From PyC Require Import Base Cbor Redeemers RedeemersOracle ScriptHash ScriptHashOracle.
Import ListNotations.
Open Scope string_scope.
'''


def render(cases, results):
    defs, items = [], []
    dflt = next((R['dflt'] for R in results if 'dflt' in R), '')
    defs.append(f'Definition dflt := {G.HX(bytes.fromhex(dflt))}.\n')
    for i, (S, R) in enumerate(zip(cases, results)):
        S = dict(S); S['_names'] = G.Names(S, i)
        defs.append(S['_names'].defs())
        tab = h_table(S, R) if R.get('stage') == 'done' else []
        defs.append(f'Definition c{i} : case := {G.r_case(S)}.\nDefinition r{i} : implres := {G.r_impl(R)}.\n'
                    f'Definition k{i} := mkCase12 c{i} {C.cbool(S["build"]["use_map"])} {r_cm(S)}.\n'
                    f'Definition h{i} : htab := {C.clist([f"({G.HX(p)}, {G.HX(d)})" for p, d in tab])}.\n')
        items.append(f'({i}%nat, judge12 h{i} dflt k{i} r{i})')
    body = ''.join(defs) + 'Definition res := Eval vm_compute in ' + C.clist(items) + '.\n'
    body += 'Eval vm_compute in (map fst (filter (fun r => negb (fst (snd r))) res)).\n'
    for code in (1, 2, 3, 4):
        body += f'Eval vm_compute in (map fst (filter (fun r => N.eqb (snd (snd r)) {code}) res)).\n'
    return body


CODES = {1: 'c12-hash', 3: 'c12-htable-miss', 4: 'c12-unreadable'}


def evaluate(cases, results, shard=40):
    """-> (mismatch set, {index: region}, outside-premise set, compile errors)"""
    mism, ofail, outside, errs = set(), {}, set(), []
    good = []
    for i, (S, R) in enumerate(zip(cases, results)):
        if 'driver_error' in R:
            mism.add(i); ofail[i] = 'driver-exception'
            continue
        G.check_hashes(S, R)
        good.append((i, S, R))
    shards, maps = [], []
    for k in range(0, len(good), shard):
        part = good[k:k + shard]
        shards.append(render([s for _, s, _ in part], [r for _, _, r in part]))
        maps.append([i for i, _, _ in part])
    for (ok, lists, log), mp in zip(C.run_cases(PID, shards, HEADER), maps):
        if not ok or len(lists) != 5:
            errs.append(log[-2500:])
            continue
        mism.update(mp[j] for j in lists[0])
        for code, l in zip((1, 2, 3, 4), lists[1:]):
            for j in l:
                if code == 2:
                    outside.add(mp[j])
                else:
                    ofail[mp[j]] = CODES[code]
    return mism, ofail, outside, errs


def correspond(ctx, n=None):
    corpus = corpus_cases() if n is None else []
    n = n or ctx.n(300, 10000)
    cases = corpus + [G.A.lookalike_ids(ctx.rng, G.gen_scenario(ctx.rng, plain=ctx.rng.random() < 0.4)) for _ in range(n - len(corpus))]
    results = C.run_impl('plutusbuild_driver', {'cases': cases})
    mism, ofail, outside, errs = evaluate(cases, results)
    if errs:
        raise RuntimeError('cases file failed to compile: ' + errs[0])
    built = [i for i, R in enumerate(results) if R.get('stage') == 'done' and not G.estimation_shifted(R)]
    if len(built) < 0.5 * len(cases):
        raise RuntimeError(f'only {len(built)} of {len(cases)} scenarios were built')
    shape = dict(hash_present=0, hash_absent=0, redeemers_and_datums=0, datums_only=0, redeemer_map=0, redeemer_list=0,
                 evaluated_units=0, langs={}, cost_model_missing_for_used_language=0,
                 cost_model_shape_of_used_language={}, v1_used_with_int_positions_ge10=0, v1_used_with_scrambled_positions=0,
                 shipped_map_not_in_canonical_key_order=dict(datum_as_dict_or_RawPlutusData=0, datum_as_PlutusData_dataclass=0,
                                                             datum_as_RawCBOR=0, redeemer_as_dict_or_RawPlutusData=0,
                                                             redeemer_as_PlutusData_dataclass=0, redeemer_as_RawCBOR=0),
                 plutusdata_dataclass_objects=0)
    nontriv = set()
    for i in built:
        S, R = cases[i], results[i]
        s5, s4, h = tx_slices(bytes.fromhex(R['tx']))
        shape['hash_present' if h is not None else 'hash_absent'] += 1
        shape['redeemers_and_datums'] += s5 is not None and s4 is not None
        shape['datums_only'] += s5 is None and s4 is not None
        if s5 is not None:
            shape['redeemer_map' if s5[0] >> 5 == 5 else 'redeemer_list'] += 1
        shape['evaluated_units'] += R['evals'] > 0
        ls = ''.join(str(x + 1) for x in sorted(langs_of(S))) or '-'
        shape['langs'][ls] = shape['langs'].get(ls, 0) + 1
        shape['cost_model_missing_for_used_language'] += any(f'PlutusV{l + 1}' not in S['cost_models'] for l in langs_of(S))
        for l in langs_of(S):
            k = f'V{l + 1}:{cm_shape(S, l + 1)}'
            shape['cost_model_shape_of_used_language'][k] = shape['cost_model_shape_of_used_language'].get(k, 0) + 1
        if 0 in langs_of(S) and cm_shape(S, 1) == 'int-positions':
            keys = [int(k) for k in S['cost_models']['PlutusV1']]
            shape['v1_used_with_int_positions_ge10'] += len(keys) >= 10
            shape['v1_used_with_scrambled_positions'] += keys != sorted(keys)
        npd = R.get('pdata', [0])[0]
        shape['plutusdata_dataclass_objects'] += npd
        dat, red = data_forms(S)
        nc = shape['shipped_map_not_in_canonical_key_order']
        for kind, lst, blob in (('datum', dat, s4), ('redeemer', red, s5)):
            for form, b in lst:
                if blob is not None and b in blob and noncanonical_map(b)[0]:
                    f = 'RawCBOR' if form == 'raw' else 'PlutusData_dataclass' if form == 'pdata' and npd else 'dict_or_RawPlutusData'
                    nc[f'{kind}_as_{f}'] += 1
        if h is not None and i not in outside and i not in ofail:
            nontriv.add(C.canon_hash(S))

    def pack(i, reg):
        return {'input': cases[i], 'impl': {k: v for k, v in results[i].items() if k not in ('tb', 'dflt')}, 'region': reg}
    fails = [pack(i, reg) for i, reg in sorted(ofail.items())]
    known_hits = {}
    for f in fails:
        if f['region'] in KNOWN_REGIONS:
            known_hits[f['region']] = known_hits.get(f['region'], 0) + 1
    return dict(
        evaluations=len(cases), distinct_nontrivial=len(nontriv),
        rule='the Plutus builder scenarios of C11 (script inputs / minting / withdrawal / certificate scripts of V1, V2, V3, '
             'native and raw-bytes kind, datums of random Plutus-data shapes by hash / inline / extra, redeemer map or list, '
             'execution units supplied or evaluated with buffers 0 / 0.1 / 0.2 / 0.25 / 0.5 / 1.0; datums and redeemer data '
             'with maps of 0-4 integer / byte-string keys of several encoded lengths in random insertion order (not canonical), '
             'constructors 0..128 in both tag forms, handed over as RawCBOR, as plain Python values (dict, RawPlutusData, '
             'IndefiniteList) or as instances of PlutusData dataclasses; cost-model sets with languages missing, keyed by '
             'names in random dict order, by zero-padded decimal strings, or by INTEGER positions (cardano-cli list form) with '
             '2 / 9 / 10 / 11 / 12 / 13 / 20 / 21 / 25 / 101 / 111 / 166 entries, for PlutusV1 also in scrambled dict order) + directed '
             'corpus; non-trivial = built transaction inside the premise whose body carries a script data hash that the '
             'oracle confirmed; distinct by hash',
        samples=[cases[len(corpus)]], corpus_cases=len(corpus), built=len(built), built_shapes=shape,
        outside_premise_sound12=len(outside), known_region_hits=known_hits,
        estimation_tx_with_other_pointers=sum(1 for R in results if 'driver_error' not in R and G.estimation_shifted(R)),
        compared='bytes of witness entries 5 and 4 and body field 11 as sliced from tx.to_cbor() by Cbor.dec against the model; '
                 'oracle: H(slice 5 | a0, slice 4 | empty, enc(spec language views of the versions used)) = field 11; '
                 'absence iff neither entry is shipped',
        mismatches=[pack(i, 'model') for i in sorted(mism)[:20]],
        oracle_fail=[f for f in fails if f['region'] not in KNOWN_REGIONS][:50],
    )


def search(ctx, mism):
    ctx.rng.seed(f'search-{ctx.seed}')
    r = correspond(ctx, 1200 if ctx.quick else 20000)
    return r['oracle_fail'][0] if r['oracle_fail'] else None


def replay(ctx, rep):
    case = rep['case']['input']
    res = C.run_impl('plutusbuild_driver', {'cases': [case]}, nshards=1)
    mism, ofail, outside, errs = evaluate([case], res)
    print('input:', json.dumps(case))
    print('implementation:', json.dumps({k: v for k, v in res[0].items() if k not in ('tb', 'dflt')}))
    print('model agrees:', 0 not in mism, ' oracle:', ofail.get(0, 'outside premise' if 0 in outside else 'holds'), errs[:1])
    return 1 if ofail else 0
