"""C07 — the fee of a built transaction is sufficient and tight; the standalone fee functions equal the ledger
formula in exact rational arithmetic."""
import hashlib, json, os
from fractions import Fraction
from lib import common as C
from props import c07_translate as TR

PID = 'C07'
TARGETS = ['props/C07.vo', 'theories/FeeOracle.vo']
LEVEL = 'proof'
GEN_OBLIGATIONS = ['gen_tiered_eq', 'gen_fee_eq', 'gen_max_eq']
KNOWN_REGIONS = []          # regions reported and awaiting an answer; both earlier ones are fixed in /repo now

MANIFEST = dict(
    text='utils.fee / max_tx_fee / tiered_reference_script_fee are re-translated from the current source (Python ast -> Gallina '
         'over a dynamically typed value domain with binary64 floats = PrimFloat) and proved equal to the reviewed model; '
         'theorems: fee = a*l+b+ceil(ps*s)+ceil(pm*m)+tier term, ledger_min <= fee <= ledger_min+2 (both ends attained), '
         'max fee = fee at the maxima, float tier = ceil(exact Conway tier) for EVERY size 0..200000 under the mainnet and '
         'fixture parameters (exhaustive VM check), two-pass scheme of _add_change_and_fee: ledger_min(final size) <= fee <= '
         'ledger_min + 16a + 2 + buffer from "max-width fee placeholder, pass-2 content contains pass-1 content" (no width '
         'premise). Correspondence: generated functions vs implementation; every _estimate_fee call of real builds vs the '
         'model; oracle = ledger rule on the decoded signed transaction.',
    note='Trusted: Coq kernel+VM incl. PrimFloat/Uint63 primitives; translator c07_translate.py and the Python-value semantics '
         'of Fee.v (validated by exact correspondence); driver; generator. Ledger rule transcribed by hand from Conway.',
    technique='Coq proof + translator (ast -> Gallina) + exhaustive VM sweep + correspondence + oracle on implementation output',
    ref='C07')
TRUSTED = [
    'Coq 8.16.1 kernel incl. vm_compute and the primitive float/int63 operations (listed by Print Assumptions as axioms: '
    'they are kernel primitives, no logical axiom is used)',
    'tools/props/c07_translate.py (Python ast -> Gallina, fail closed) and the Python value semantics py_* of coq/theories/Fee.v, '
    'tied to CPython by exact agreement on every function-level case (ints, Fractions, floats, exceptions)',
    'Ledger.min_fee / Ledger.tier in Fee.v: hand transcription of the Conway rule (getConwayMinFeeTx, tierRefScriptFee)',
    'the size algebra of the two passes (twopass in Fee.v), tied per scenario: recorded _estimate_fee calls, placeholder, '
    'coins and final length (taken from the signed bytes inside Coq) must satisfy build_corr',
    'tools/impl/fee_driver.py, generator and literal printer of tools/props/c07.py; bc_omitted and bc_ref_ledger are '
    'computed by the driver (witness-set difference via the public build_witness_set; scripts on the scenario UTxOs)',
]
ASSUMPTIONS = [
    'exhaustive float-tier theorem only for the parameter sets (15.0, 25600, 1.2) and (44, 25600, 1.2) with maximum 200000; '
    'other float parameters: correspondence + oracle only (Blockfrost shape (x, 200000, 1) not swept)',
    'C07_sufficient/C07_tight are about the size algebra (twopass), not about a full model of txbuilder.py; premises: '
    'non-negative coefficient/prices/buffer, execution units within the per-transaction maxima, self.fee = 0 on entry, '
    'signing keys cover the required key hashes (same number and size of witnesses as the placeholders)',
    'float prices are outside the declared type (Fraction): the product is rounded before the ceiling; shown by Example '
    'float_price_underestimates; generated float prices are the mainnet decimals, for which the band still holds',
]


def axioms_allowed(name, text):
    """Print Assumptions lists kernel primitives (PrimFloat / PrimInt63) under 'Axioms:'; nothing else is tolerated."""
    prim = {'float', 'sub', 'opp', 'of_uint63', 'normfr_mantissa', 'mul', 'ltb', 'leb', 'ldshiftexp', 'frshiftexp', 'eqb',
            'div', 'add', 'abs', 'classify', 'compare', 'sqrt', 'next_up', 'next_down'}
    for line in text.split('\n')[1:]:
        line = line.strip()
        if not line or ':' not in line:
            continue
        nm = line.split(':')[0].strip()
        if nm.startswith(('PrimInt63.', 'PrimFloat.', 'Uint63.')) or nm in prim:
            continue
        return False
    return True


# ------------------------------------------------------------------------------------------------ regen (T2)
def regen(ctx):
    src = open(os.path.join(C.REPO, 'pycardano', 'utils.py')).read()
    C.write_gen('FeeGen', TR.translate(src))


# ------------------------------------------------------------------------------------------------ parameters
MAIN_PM, MAIN_PS = Fraction(577, 10000), Fraction(721, 10000000)
PRICE_SETS = [(MAIN_PM, MAIN_PS), (Fraction(1, 3), Fraction(2, 7)), (Fraction(0), Fraction(0)),
              (Fraction(577, 10000), Fraction(1, 13889)), (Fraction(5, 1), Fraction(1, 1000000))]
REF_SETS = [  # (base, range, mult) as decimal strings; the code gets floats/ints, the ledger the exact decimals
    ('15.0', '25600', '1.2'), ('44', '25600', '1.2'), ('15', '25600', '1.2'), ('15.0', '200000', '1'),
    ('10.5', '1000', '1.5'), ('0.5', '4096', '2.0'), ('44.0', '25600.0', '1.2'), ('3', '100', '1.1'),
    ('15.0', '25599.5', '1.2'), ('1', '25600', '1.25'),
]


def dec(s):
    """decimal string -> (code value literal, exact Fraction)"""
    if '.' in s:
        return ['f', float(s).hex()], Fraction(s)
    return ['i', int(s)], Fraction(int(s))


def gen_params(rng, fee_zone=None, plutus=False, ref=None, float_prices=None):
    a = rng.choice([44, 44, 44, 1, 100, 0, 1000]) if fee_zone is None else fee_zone[0]
    b = rng.choice([155381, 155381, 0, 1000, 70000, 2 ** 20]) if fee_zone is None else fee_zone[1]
    pm, ps = rng.choice(PRICE_SETS) if plutus or rng.random() < 0.5 else (MAIN_PM, MAIN_PS)
    if float_prices is None:
        float_prices = rng.random() < 0.2
    if float_prices:
        pm, ps = MAIN_PM, MAIN_PS
        pml, psl = ['f', (0.0577).hex()], ['f', (0.0000721).hex()]
    else:
        pml, psl = ['q', pm.numerator, pm.denominator], ['q', ps.numerator, ps.denominator]
    if ref is None:
        ref = rng.choice([None] + REF_SETS + REF_SETS[:2] * 3)
    p = dict(a=a, b=b, maxsize=16384, maxsteps=10_000_000_000, maxmem=14_000_000, pm=pml, ps=psl,
             exact_prices=not float_prices, ref=None,
             lp=dict(pm=[pm.numerator, pm.denominator], ps=[ps.numerator, ps.denominator], base=[0, 1], range=1, mult=[1, 1]))
    if ref:
        (bl, bq), (rl, rq), (ml, mq) = dec(ref[0]), dec(ref[1]), dec(ref[2])
        rceil = -((-rq.numerator) // rq.denominator)
        p['ref'] = dict(base=bl, range=rl, mult=ml, max=min(200000, 8 * rceil))   # at most 8 tiers: exact rationals stay small
        p['lp'].update(base=[bq.numerator, bq.denominator], range=rceil, mult=[mq.numerator, mq.denominator])
    return p


# ------------------------------------------------------------------------------------------------ function-level cases
def gen_fn_cases(rng, n):
    cases = []
    sizes_l = [0, 1, 23, 24, 255, 256, 300, 1000, 16383, 16384]
    refs_r = [0, 1, 99, 100, 101, 4095, 4096, 4097, 25599, 25600, 25601, 51199, 51200, 51201, 76800, 76801, 102400,
              128000, 153600, 179200, 199999, 200000, 200001, 250000]
    for i in range(n):
        p = gen_params(rng, plutus=True)
        l = rng.choice(sizes_l) if rng.random() < 0.5 else rng.randint(0, 16384)
        s = rng.choice([0, 1, 13889, 10_000_000_000, rng.randint(0, 10_000_000_000)])
        m = rng.choice([0, 1, 10000, 14_000_000, rng.randint(0, 14_000_000)])
        if p['ref'] is None:
            r = rng.choice([0, 0, 1000, 250000])
        else:
            rg, mx = p['lp']['range'], p['ref']['max']
            u = rng.random()
            if u < 0.45:
                r = max(0, rng.randint(0, 8) * rg + rng.choice([-1, 0, 1]))
            elif u < 0.6:
                r = rng.choice([0, 1, mx - 1, mx, mx + 1, 2 * mx])
            elif u < 0.8:
                r = rng.choice([x for x in refs_r if x <= mx + 1])
            else:
                r = rng.randint(0, mx)
        cases.append({'k': 'fn', 'params': p, 'args': [l, s, m, r]})
    return cases


# ------------------------------------------------------------------------------------------------ builder scenarios
def txid(rng):
    return hashlib.sha256(str(rng.random()).encode()).hexdigest()


POLICY_A = 'aa' * 28


def scen_payment(rng, params, nin=1, nout=1, change_target=None, merge=False, ma=False, meta=False, extra_signers=0,
                 buffer=None, ref_on_input=None, base_addr=False, ttl=None, mint=False, native_in=False):
    a, b = params['a'], params['b']
    fee_guess = a * (400 + 200 * nin + 80 * nout + (3000 if meta else 0)) + b + 3_000_000
    nkeys = rng.randint(1, nin)
    outs = []
    for j in range(nout):
        o = {'addr': [rng.choice(['ent', 'base']), 7], 'coin': rng.choice([2_000_000, 1_500_000, 5_000_000, 4_294_967_296, 70_000])}
        outs.append(o)
    change_key = 0
    if merge and outs:
        outs[0]['addr'] = ['base' if base_addr else 'ent', change_key]
    total_out = sum(o['coin'] for o in outs)
    if change_target is None:
        change_target = rng.choice([2_000_000, 3_000_000, 10_000_000, 2 ** 32 - 100_000, 2 ** 32 + 5_000_000, 123_456_789_012])
    utxos = []
    need = total_out + fee_guess + change_target + (buffer or 0)
    for j in range(nin):
        k = j if j < nkeys else rng.randrange(nkeys)
        coin = need if j == 0 else rng.choice([1_000_000, 2_500_000, 20_000_000])
        u = {'id': txid(rng), 'ix': rng.randint(0, 30), 'addr': ['base' if base_addr and j == 0 else 'ent', k], 'coin': coin, 'how': 'explicit'}
        if ma and j < 2:
            u['ma'] = [[POLICY_A, [[('%02x' % t) * rng.randint(1, 8), rng.choice([1, 1000, 2 ** 40])] for t in range(rng.randint(1, 4))]]]
            if rng.random() < 0.5:
                u['ma'].append(['bb' * 28, [['', 7]]])
        utxos.append(u)
    signers = list(range(nkeys))
    sc = {'utxos': utxos, 'outputs': outs, 'change': ['base' if base_addr else 'ent', change_key], 'merge': merge, 'signers': signers}
    if ref_on_input is not None:
        utxos[0]['script'] = ['plutus2', ref_on_input, rng.randint(0, 255)]
    if native_in:
        spec = ['all', [['pk', 5], ['pk', 6]]] if native_in == 2 else ['any', [['pk', 5], ['after', 99999]]]
        u = {'id': txid(rng), 'ix': 0, 'addr': ['script', ['native', spec]], 'coin': 3_000_000, 'how': 'script',
             'spend': {'script': ['native', spec]}}
        utxos.append(u)
        sc['signers'] = sorted(set(signers + ([5, 6] if native_in == 2 else [5])))
        sc['ttl'] = 5000
    if mint:
        pol = ['all', [['pk', 4]]]
        sc['mint'] = {'policies': [pol], 'names': [[['746f6b', rng.choice([1, 1000, 2 ** 33])], ['', 5]][:rng.randint(1, 2)]]}
        sc['signers'] = sorted(set(sc['signers'] + [4]))
    if extra_signers:
        rs = [k for k in range(8) if k not in sc['signers']][:extra_signers]
        sc['required_signers'] = sorted(set(sc['signers'] + rs))
        sc['signers'] = sorted(set(sc['signers'] + rs))
    if meta:
        sc['metadata'] = {'674': {'msg': ['fee check ' + 'x' * rng.randint(0, 50)] * rng.randint(1, 5)}, '1': rng.randint(0, 2 ** 40)}
    if buffer is not None:
        sc['fee_buffer'] = buffer
    if ttl is not None:
        sc['ttl'] = ttl
    return sc


def scen_plutus(rng, params, via, estimate=False, nscripts=1, redeemer_map=True, datum=True):
    """via: 'witness' (script in the witness set), 'ref' (reference UTxO), 'self' (script on the spent UTxO itself)"""
    size = rng.choice([50, 500, 3000, 9000]) if via != 'witness' else rng.choice([50, 500, 2000])
    seed = rng.randint(0, 255)
    script = ['plutus2', size, seed]
    utxos = [{'id': txid(rng), 'ix': 0, 'addr': ['ent', 0], 'coin': 20_000_000_000, 'how': 'explicit'},
             {'id': txid(rng), 'ix': 1, 'addr': ['ent', 0], 'coin': 10_000_000_000, 'how': 'collateral'}]
    ref_ix = None
    if via == 'ref':
        utxos.append({'id': txid(rng), 'ix': 2, 'addr': ['ent', 3], 'coin': 40_000_000, 'how': 'refonly', 'script': script})
        ref_ix = len(utxos) - 1
    units = {}
    for j in range(nscripts):
        u = {'id': txid(rng), 'ix': 3 + j, 'addr': ['script', script], 'coin': 5_000_000, 'how': 'script'}
        mem, steps = rng.choice([(1, 0), (1, 1), (1_000_000, 400_000_000), (13_999_999, 9_999_999_999), (12345, 6789012)])
        sp = {'redeemer': [] if estimate else [mem, steps], 'data': rng.randint(0, 1000)}
        if datum:
            sp['datum'] = 42
        if via == 'witness':
            sp['script'] = script
        elif via == 'ref':
            sp['script_ref'] = ref_ix
        else:
            u['script'] = script
        u['spend'] = sp
        utxos.append(u)
    sc = {'utxos': utxos, 'outputs': [{'addr': ['ent', 7], 'coin': 3_000_000}], 'change': ['ent', 0], 'merge': False,
          'signers': [0], 'use_redeemer_map': redeemer_map}
    if estimate:
        sc['eval'] = {f'spend:{i}': [rng.choice([1000, 2_000_000]), rng.choice([5000, 700_000_000])] for i in range(8)}
    return sc


STD = (44, 155381)


def corpus(rng):
    """fixed cases: the witnesses of the two defects that were fixed in /repo must now satisfy the oracle"""
    out = []
    for b in (55328, 56000, 56867):                       # fee-width-crossing at 2^16 (one-input payment)
        p = gen_params(rng, fee_zone=(44, b), ref=REF_SETS[1], float_prices=False)
        sc = {'utxos': [{'id': '11' * 32, 'ix': 0, 'addr': ['ent', 0], 'coin': 10_000_000, 'how': 'explicit'}],
              'outputs': [{'addr': ['ent', 0], 'coin': 2_000_000}], 'change': ['ent', 0], 'merge': False, 'signers': [0]}
        out.append({'k': 'build', 'params': p, 'scenario': sc, 'tag': 'corpus-width'})
    p = gen_params(rng, fee_zone=STD, ref=REF_SETS[2], float_prices=False)      # refscript-uncounted
    sc = {'utxos': [{'id': '11' * 32, 'ix': 0, 'addr': ['ent', 0], 'coin': 30_000_000, 'how': 'explicit', 'script': ['plutus2', 3000, 1]}],
          'outputs': [{'addr': ['ent', 0], 'coin': 2_000_000}], 'change': ['ent', 0], 'merge': False, 'signers': [0]}
    out.append({'k': 'build', 'params': p, 'scenario': sc, 'tag': 'corpus-refscript'})
    return out


def gen_build_cases(rng, n):
    cases = corpus(rng)
    # targeted sweeps: fee on both sides of 2^8 / 2^16 / 2^32 between the passes
    zones = []
    for b in range(0, 60, 3):
        zones.append((1, b))
    for b in range(54500, 57400, 90):
        zones.append((44, b))
    for b in range(2 ** 32 - 13000, 2 ** 32 - 8500, 140):
        zones.append((44, b))
    for z in zones:
        p = gen_params(rng, fee_zone=z, ref=rng.choice([None, REF_SETS[0]]), float_prices=False)
        merge = rng.random() < 0.4
        sc = scen_payment(rng, p, nin=1, nout=1, merge=merge, base_addr=rng.random() < 0.3,
                          change_target=rng.choice([3_000_000, 9_000_000, 2 ** 32 + 10 ** 6]))
        cases.append({'k': 'build', 'params': p, 'scenario': sc, 'tag': 'fee-zone'})
    # change amounts on both sides of 2^32 / 2^16.. (fixed shape: fee known to be 165677 (5-byte change) or 165853)
    for delta in list(range(-700, 500, 60)):
        for merge in (False, True):
            p = gen_params(rng, fee_zone=STD, ref=None, float_prices=False)
            coin = 2_000_000 + 165677 + 2 ** 32 + delta - (2_000_000 if merge else 0)
            sc = {'utxos': [{'id': txid(rng), 'ix': 0, 'addr': ['ent', 0], 'coin': coin, 'how': 'explicit'}],
                  'outputs': [{'addr': ['ent', 0] if merge else ['ent', 7], 'coin': 2_000_000}], 'change': ['ent', 0],
                  'merge': merge, 'signers': [0]}
            cases.append({'k': 'build', 'params': p, 'scenario': sc, 'tag': 'change-zone'})
    while len(cases) < n:
        r = rng.random()
        if r < 0.55:
            zone = rng.choice(zones) if rng.random() < 0.35 else None
            p = gen_params(rng, fee_zone=zone)
            nin = rng.randint(1, 6)
            sc = scen_payment(rng, p, nin=nin, nout=rng.randint(0, 3), merge=rng.random() < 0.3, ma=rng.random() < 0.4,
                              meta=rng.random() < 0.3, extra_signers=rng.choice([0, 0, 1, 2, 4, 7]),
                              buffer=rng.choice([None, None, 0, 1000, 70000, 2 ** 32]),
                              ref_on_input=rng.choice([None, None, None, 100, 3000, 12000]) if p['ref'] else None,
                              base_addr=rng.random() < 0.4, mint=rng.random() < 0.2, native_in=rng.choice([0, 0, 0, 1, 2]))
            cases.append({'k': 'build', 'params': p, 'scenario': sc, 'tag': 'payment'})
        elif r < 0.62:                                   # no change address: single estimate
            p = gen_params(rng)
            sc = scen_payment(rng, p, nin=rng.randint(1, 3), nout=rng.randint(1, 2))
            sc['change'] = None
            cases.append({'k': 'build', 'params': p, 'scenario': sc, 'tag': 'no-change'})
        elif r < 0.66:                                   # zero key witnesses: a single native-script input that needs no key
            p = gen_params(rng)
            spec = ['any', [['after', 99999]]]
            sc = {'utxos': [{'id': txid(rng), 'ix': 0, 'addr': ['script', ['native', spec]], 'coin': 50_000_000_000, 'how': 'script',
                             'spend': {'script': ['native', spec]}}],
                  'outputs': [{'addr': ['ent', 7], 'coin': 2_000_000}], 'change': ['ent', 0], 'merge': False, 'signers': [], 'ttl': 5000}
            cases.append({'k': 'build', 'params': p, 'scenario': sc, 'tag': 'zero-witness'})
        else:
            p = gen_params(rng, fee_zone=rng.choice([STD, STD, (44, 0), (100, 155381)]), plutus=True,
                           ref=rng.choice(REF_SETS[:3] + [None]))
            via = rng.choice(['witness', 'ref', 'self']) if p['ref'] else rng.choice(['witness', 'self'])
            sc = scen_plutus(rng, p, via, estimate=rng.random() < 0.25, nscripts=rng.choice([1, 1, 2]),
                             redeemer_map=rng.random() < 0.7, datum=rng.random() < 0.7)
            cases.append({'k': 'build', 'params': p, 'scenario': sc, 'tag': 'plutus-' + via})
    return cases


# ------------------------------------------------------------------------------------------------ Coq literals
HEADER = '''From Coq Require Import ZArith NArith QArith List String.
From Coq Require Import PrimFloat.
From PyC Require Import Base Cbor Fee FeeOracle.
Import ListNotations.
Open Scope Z_scope.
'''
ERR = {'ValueError': 'EValue', 'TypeError': 'EType', 'OverflowError': 'EOverflow', 'KeyError': 'EKey'}


def cq(nd):
    return f'({nd[0]} # {nd[1]})%Q'


def cpy(x):
    if x is None:
        return 'VNone'
    if x[0] == 'i':
        return f'(VInt {C.cz(x[1])})'
    if x[0] == 'q':
        return f'(VFrac {cq(x[1:])})'
    if x[0] == 'f':
        h = x[1]
        return f'(VFloat ({h})%float)'
    if x[0] == 'e':
        return f'(VErr {ERR.get(x[1], "EFuel")})'
    raise ValueError(x)


def cctx(p):
    ref = p['ref']
    if ref is None:
        mrs = mfr = 'VNone'
    else:
        mrs = f'(VDict [("bytes"%string, VInt {C.cz(ref["max"])})])'
        mfr = (f'(VDict [("base"%string, {cpy(ref["base"])}); ("range"%string, {cpy(ref["range"])}); '
               f'("multiplier"%string, {cpy(ref["mult"])})])')
    return (f'(mk_params {C.cz(p["a"])} {C.cz(p["b"])} {C.cz(p["maxsize"])} {cpy(p["pm"])} {cpy(p["ps"])} '
            f'{C.cz(p["maxmem"])} {C.cz(p["maxsteps"])} {mrs} {mfr})')


def clp(p):
    lp = p['lp']
    return (f'{{| Ledger.la := {C.cz(p["a"])}; Ledger.lb := {C.cz(p["b"])}; Ledger.lpm := {cq(lp["pm"])}; '
            f'Ledger.lps := {cq(lp["ps"])}; Ledger.lbase := {cq(lp["base"])}; Ledger.lrange := {C.cz(lp["range"])}; '
            f'Ledger.lmult := {cq(lp["mult"])} |}}')


def r_fn(c, r):
    p = c['params']
    l, s, m, rr = c['args']
    return (f'{{| fc_ctx := {cctx(p)}; fc_lp := {clp(p)}; fc_has_ref := {C.cbool(p["ref"] is not None)}; '
            f'fc_exact_prices := {C.cbool(p["exact_prices"])}; fc_maxsize := {C.cz(p["maxsize"])}; '
            f'fc_maxsteps := {C.cz(p["maxsteps"])}; fc_maxmem := {C.cz(p["maxmem"])}; fc_l := {C.cz(l)}; fc_s := {C.cz(s)}; '
            f'fc_m := {C.cz(m)}; fc_r := {C.cz(rr)}; fc_fee := {cpy(r["fee"])}; fc_max := {cpy(r["max"])}; fc_tier := {cpy(r["tier"])} |}}')


def r_build(c, r):
    p = c['params']
    calls = C.clist([f'{{| ec_size := {C.cz(x[0])}; ec_placeholder := {C.cz(x[1])}; ec_coins := {C.clist([C.cz(k) for k in x[2]])}; '
                     f'ec_result := {C.cz(x[3])} |}}' for x in r['calls']])
    return (f'{{| bc_ctx := {cctx(p)}; bc_lp := {clp(p)}; bc_has_ref := {C.cbool(p["ref"] is not None)}; '
            f'bc_buffer := {C.cz(c["scenario"].get("fee_buffer") or 0)}; bc_ref_builder := {C.cz(r["ref_builder"])}; '
            f'bc_ref_ledger := {C.cz(r["ref_ledger"])}; bc_omitted := {C.cz(r["omitted"])}; '
            f'bc_has_change := {C.cbool(c["scenario"].get("change") is not None)}; bc_calls := {calls}; '
            f'bc_tx := {C.chx(bytes.fromhex(r["tx"]))} |}}')


def render(kind, items):
    ty, corr, orc = ('fcase', 'fn_corr', 'fn_oracle') if kind == 'fn' else ('bcase', 'build_corr', 'build_oracle')
    body = f'Definition cases : list (nat * {ty}) :=\n' + C.clist([f'({i}%nat, {t})' for i, t in items]) + '.\n'
    body += f'Eval vm_compute in (map fst (filter (fun c => negb ({corr} (snd c))) cases)).\n'
    body += f'Eval vm_compute in (map fst (filter (fun c => negb ({orc} (snd c))) cases)).\n'
    return body


def evaluate(cases, results):
    """-> (mismatch indices, oracle-failure indices, compile errors)"""
    mism, ofail, errs = set(), set(), []
    fn, bd = [], []
    for i, (c, r) in enumerate(zip(cases, results)):
        if 'driver_error' in r:
            mism.add(i); ofail.add(i)
        elif c['k'] == 'fn':
            fn.append((i, r_fn(c, r)))
        elif 'tx' in r:
            bd.append((i, r_build(c, r)))
    shards, maps = [], []
    for kind, lst, step in (('fn', fn, 160), ('build', bd, 30)):
        for k in range(0, len(lst), step):
            part = lst[k:k + step]
            shards.append(render(kind, [(j, t) for j, (_, t) in enumerate(part)]))
            maps.append([i for i, _ in part])
    for (ok, lists, log), mp in zip(C.run_cases(PID, shards, HEADER), maps):
        if not ok or len(lists) != 2:
            errs.append(log[-1500:])
            continue
        mism.update(mp[j] for j in lists[0]); ofail.update(mp[j] for j in lists[1])
    return mism, ofail, errs


# ------------------------------------------------------------------------------------------------ classification
def width(n):
    return 1 if n < 24 else 2 if n < 256 else 3 if n < 65536 else 5 if n < 2 ** 32 else 9


def classify(c, r):
    if 'driver_error' in r:
        return 'exception'
    if c['k'] == 'fn':
        return 'float-price' if not c['params']['exact_prices'] else 'fee-function'
    if 'tx' not in r:
        return 'refused'
    if r['ref_ledger'] != r['ref_builder']:
        return 'refscript-uncounted' if r['ref_ledger'] > r['ref_builder'] else 'refscript-overcounted'
    if r['calls']:
        last = r['calls'][-1]
        if width(r['fee']) > width(last[1]):
            return 'fee-width-crossing'
    if r['real_wit'] != r['fake_wit']:
        return 'witness-count'
    return 'fee-estimate'


def nontrivial(c, r):
    if c['k'] == 'fn':
        return r.get('fee', ['e'])[0] == 'i' and any(c['args'][1:])
    return 'tx' in r and c['scenario'].get('change') is not None


def correspond(ctx, n=None):
    nb = n or ctx.n(380, 12000)
    nf = (n or ctx.n(1250, 60000))
    cases = gen_fn_cases(ctx.rng, nf) + gen_build_cases(ctx.rng, nb)
    results = C.run_impl('fee_driver', {'cases': cases})
    mism, ofail, errs = evaluate(cases, results)
    if errs:
        raise RuntimeError('cases file failed to compile: ' + errs[0])
    hist, tags, errk, known_hits = {}, {}, {}, {}
    slack = []
    for c, r in zip(cases, results):
        hist[c['k']] = hist.get(c['k'], 0) + 1
        if c['k'] == 'build':
            tags[c.get('tag')] = tags.get(c.get('tag'), 0) + 1
            if 'err' in r:
                errk[r['err']] = errk.get(r['err'], 0) + 1
    def pack(i):
        r = dict(results[i])
        return {'input': cases[i], 'impl': r, 'region': classify(cases[i], results[i])}
    fails = [pack(i) for i in sorted(ofail)]
    for f in fails:
        if f['region'] in KNOWN_REGIONS:
            known_hits[f['region']] = known_hits.get(f['region'], 0) + 1
    fails = [f for f in fails if f['region'] not in KNOWN_REGIONS]
    built = [(c, r) for c, r in zip(cases, results) if c['k'] == 'build' and 'tx' in r]
    wit_hist, in_hist, out_hist, wcross = {}, {}, {}, {'fee_placeholder_wider_than_fee': 0, 'fee_2^8': 0, 'fee_2^16': 0, 'fee_2^32': 0,
                                                      'change_coin_9_bytes': 0, 'coin_width_shrunk_after_pass2': 0, 'omitted_scripts': 0, 'ref_bytes>0': 0, 'exunits>0': 0}
    for c, r in built:
        wit_hist[r['real_wit']] = wit_hist.get(r['real_wit'], 0) + 1
        in_hist[r['n_inputs']] = in_hist.get(r['n_inputs'], 0) + 1
        out_hist[r['n_outputs']] = out_hist.get(r['n_outputs'], 0) + 1
        if r['calls'] and width(r['calls'][-1][1]) > width(r['fee']):
            wcross['fee_placeholder_wider_than_fee'] += 1
        if len(r['calls']) >= 2:
            f1, f2 = r['calls'][-2][3], r['calls'][-1][3]
            for nm, lim in (('fee_2^8', 256), ('fee_2^16', 65536), ('fee_2^32', 2 ** 32)):
                if f1 < lim <= f2 or f2 < lim <= f1:
                    wcross[nm] += 1
        if any(k >= 2 ** 32 for k in (r['calls'][-1][2] if r['calls'] else [])):
            wcross['change_coin_9_bytes'] += 1
        wcross['omitted_scripts'] += r['omitted'] > 0
        wcross['exunits>0'] += r.get('mem', 0) + r.get('steps', 0) > 0
        wcross['coin_width_shrunk_after_pass2'] += bool(r['calls']) and sum(map(width, r['calls'][-1][2])) > sum(map(width, r['final_coins']))
        wcross['ref_bytes>0'] += r['ref_ledger'] > 0
    distinct = len({C.canon_hash([c, r.get('tx', r.get('fee'))]) for c, r in zip(cases, results) if nontrivial(c, r)})
    return dict(
        evaluations=len(cases), distinct_nontrivial=distinct,
        rule='function level: parameter sets (coefficient/constant, Fraction and float prices, 10 reference-script parameter '
             'sets incl. None) x sizes 0..16384 x units up to the maxima x reference sizes on tier boundaries (k*range-1, k*range, '
             'k*range+1, max, max+1); non-trivial = returns an int and has units or reference bytes. Builder level: '
             'build_and_sign scenarios (1..6 inputs, 0..3 outputs + change, 0..8 key witnesses, metadata, native-script inputs, '
             'multi-asset change, merge_change, fee_buffer, script-carrying inputs, Plutus spends via witness / reference UTxO / '
             'script on the spent UTxO, explicit and estimated execution units, list and map redeemers) under parameter sets '
             'sweeping min_fee_constant so that pass-1/pass-2 fees straddle 2^8, 2^16, 2^32 and change amounts straddle 2^32; '
             'non-trivial = a signed transaction with change was produced; distinct by hash of (case, result)',
        samples=[cases[0], cases[nf + 4] if len(cases) > nf + 4 else cases[-1]],
        kinds=hist, scenario_tags=tags, refused_by_builder=errk, witnesses=wit_hist, inputs=in_hist, outputs=out_hist,
        boundary_hits=wcross, built=len(built), known_region_hits=known_hits, known_regions=KNOWN_REGIONS,
        few_dozen_bytes=24,
        compared='function level: generated Gallina of utils.py vs implementation, exact incl. exception kind; builder level: every '
                 'recorded _estimate_fee = generated fee at the recorded fake size (+buffer), placeholder = max(previous fee, '
                 'generated max fee + buffer), final length (length of the signed bytes inside Coq) = last fake size with fee/coin '
                 'widths replaced minus omitted script bytes, coins changed by exactly the fee difference; oracle: ledger min fee '
                 '(decoded execution units, all reference-script bytes) <= body fee <= min + a*(24+omitted) + 2 + buffer',
        mismatches=[pack(i) for i in sorted(mism)[:20]],
        oracle_fail=fails[:50],
    )


def search(ctx, mism):
    """Something no longer checks: look harder for an input on which the property fails on the implementation."""
    ctx.rng.seed(f'search-{ctx.seed}')
    r = correspond(ctx, 900 if ctx.quick else 6000)
    if r['oracle_fail']:
        return min(r['oracle_fail'], key=lambda f: len(json.dumps(f, default=str)))
    return None


def replay(ctx, rep):
    case = rep['case']['input']
    res = C.run_impl('fee_driver', {'cases': [case]}, nshards=1)
    mism, ofail, errs = evaluate([case], res)
    print('input:', json.dumps(case))
    print('implementation:', json.dumps({k: v for k, v in res[0].items() if k != 'tx'}))
    print('model agrees:', 0 not in mism, ' property oracle holds:', 0 not in ofail, ' region:', classify(case, res[0]))
    return 1 if ofail else 0
