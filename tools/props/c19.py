"""C19 — CIP-8 signed messages verify iff untampered and bound to the signer."""
import hashlib, json, os, time
from concurrent.futures import ProcessPoolExecutor
from lib import common as C
from props import cip8gen as G
from props.cip8gen import T, Pairs, Raw, cenc, cdec

PID = 'C19'
TARGETS = ['props/C19.vo', 'theories/Cip8Oracle.vo']
LEVEL = 'proof'

MANIFEST = dict(
    text='Theorems (Coq, all byte strings, abstract Ed25519/BLAKE2b as Section variables): C19_complete - verify(sign(m,k)) '
         'reports verified with message m and the address derived from k, for every UTF-8 message, key kind, attach mode and '
         'network; C19_sound - whenever verify reports success on ANY received bytes, the Ed25519 check succeeded on the '
         'Sig_structure over exactly the received protected-header bytes and payload, under a key whose BLAKE2b-224 is the '
         'credential of the reported address, which is the address in that protected header; C19_tamper - under pointwise '
         'unforgeability no altered payload/protected header/signature/key/address is reported verified. Model tied to '
         'cip8.py + cose + cbor2 by correspondence on all single-bit alterations of the three signed regions and substitutions.',
    note='Trusted: Coq kernel+vm_compute; hand model Cip8.v (cip8.py, cose 0.9.dev8 header/key/Sig_structure code, cbor2 loads/dumps, '
         'Address.from_primitive) validated by differential runs; pure-Python RFC 8032 reference as ed_verify table. '
         'Section hypotheses: sign/verify law, key/hash lengths; unforgeability only in C19_tamper.',
    technique='Coq proof (CBOR round trip, clause-by-clause inversion of verify) + correspondence with table-instantiated primitives',
    ref='C19')
TRUSTED = [
    'Coq 8.16.1 kernel incl. vm_compute (no native_compute); no axioms (see Print Assumptions lines)',
    'hand model coq/theories/Cip8.v of pycardano/cip/cip8.py and of the cose/cbor2 code it drives, tied by correspondence '
    '(outcome verified/not verified/exception kind, message and address on every variant; signed bytes byte-for-byte)',
    'tools/refcrypto/ed25519_ref.py (RFC 8032 pure Python) + hashlib.blake2b instantiate ed_verify/ed_sign/ed_pub/H28 in the cases files; '
    'a question of the model that has no table entry fails the case (c19_miss)',
    'tools/impl/cip8_driver.py, tools/props/cip8gen.py (own CBOR walker locating the regions, variant builders, Coq literal printer)',
]
ASSUMPTIONS = [
    'Section hypotheses (C19_complete only): ed_verify (ed_pub s) m (ed_sign s m) = true; ed_verify (stored public key) m (xed_sign x m) = true '
    'for well-formed extended keys; |ed_pub s| = 32; |H28 b| = 28; message/signature lengths < 2^64',
    'C19_tamper only: pointwise unforgeability at the signer key (the only valid (message, signature) under vk is the signed one) and '
    'pointwise collision-freeness of H28 at vk',
    'OpenSSL (cryptography) and libsodium Ed25519 verification are one function ed_verify (RFC 8032 verification)',
    'model answers Unmodelled (= no success) on: floats / other simple values / indefinite text / nested or non-top-level indefinite maps / tags '
    'inside headers, non-ASCII text header labels, header attributes -1/-2, COSE keys with non-integer labels or kty != OKP; '
    'the implementation could accept such exotic headers - they are outside the tie',
    'documented, not a violation: with a >32-byte key the address is compared with BLAKE2b-224 of the WHOLE key, so honest messages whose KID is '
    'an extended verification key are never reported verified; a script-hash address whose hash equals the key hash is accepted as bound',
]


# ------------------------------------------------------------------ generation
def groups_for(ctx):
    """list of signing scenarios; 'flips': 'all' (every bit of the three regions) or an int sample per region"""
    rng = ctx.rng
    gs = []
    combos = [(k, a, n) for k in G.KINDS for a in (False, True) for n in (0, 1)]
    short_msgs = ['', 'a', '\U0001F600', 'hi there', 'Zahlé ✓', '中文', '\u0000\n', 'x' * 3]
    for i, (k, a, n) in enumerate(combos):
        msg = short_msgs[i % len(short_msgs)] if i < 8 else G.rand_text(rng, rng.choice([3, 6, 10, 16]))
        gs.append(dict(kind=k, attach=a, net=n, msg=msg, flips='all'))
    extra = [('A' * 64, 'all'), (G.rand_text(rng, 64, 'mixed'), 'all'),
             (G.rand_text(rng, 200, 'astral'), 24), (G.rand_text(rng, 4096, 'mixed') + 'z' * 64, 16),
             ('p' * 4000 + '\U0001F600' * 30, 16), (G.rand_text(rng, 40, 'mixed'), 'all'),
             # text that is NOT in a Unicode normalisation form (base letter + combining mark, singletons such as OHM / ANGSTROM
             # SIGN, conjoining jamo, marks in non-canonical order, compatibility ligatures): the payload is the caller's code
             # points as they are, and verify returns exactly them
             ('e\u0301 \u2126\u212b', 'all'), ('\u1100\u1161 a\u0307\u0323 \ufb01 \u00c5A\u030a', 24), ('\u0041\u030a\u0301x\u0344', 24),
             (G.rand_text(rng, 600, 'mixed'), 24), (G.rand_text(rng, 24, 'ascii'), 'all'), ('€' * 21, 'all')]
    n_more = ctx.n(0, 575)
    for _ in range(n_more):
        extra.append((G.rand_text(rng, rng.choice([8, 20, 40, 64]), rng.choice(['mixed', 'ascii', 'astral'])), 'all'))
    for j, (msg, fl) in enumerate(extra):
        k, a, n = combos[(5 * j + 3) % len(combos)]
        gs.append(dict(kind=k, attach=a, net=n, msg=msg, flips=fl))
    for g in gs:
        g['key'] = G.make_key(rng, g['kind'])
        g['att'] = G.make_key(rng, 'stake' if 'stake' in g['kind'] else 'pay')      # the attacker: an ordinary key of the same family
        g['seed'] = rng.getrandbits(64)
    # corpus (always first): forgery through the >32-byte key branch (signature re-split), one per key kind
    corpus = json.load(open(os.path.join(C.VERIF, 'corpus', 'C19.json')))
    first = []
    for e in corpus['forgery_keys']:
        key = {'kind': e['kind'], 'sk': e['sk'], 'vk': bytes.fromhex(e['vk'])}
        plan = make_forgery_plan(key, bytes.fromhex(e['cc']))
        first.append(dict(kind=e['kind'], attach=True, net=0, msg=plan['m0'], flips=0, key=key, att=G.make_key(rng, 'pay'),
                          seed=rng.getrandbits(64), forgery=plan))
    return first + gs


def make_forgery_plan(key, cc):
    pk = key['vk']
    h = G.H28(pk + cc)
    h.decode('utf-8')                               # corpus invariant: the credential is valid UTF-8
    ph = cenc(Pairs([(1, -8), (T(b'address'), bytes([0x60]) + h), (T(b'x'), T(b'p' * 100)), (T(b'y'), T(b'p' * 60))]))
    assert 0xc2 <= len(ph) <= 0xdf
    payload2 = b'I owe Mallory 1000000 ADA'
    tbs2 = G.sig_structure(ph, payload2)
    m0 = (b'hello \xc4' + tbs2).decode('utf-8')
    return dict(cc=cc, ph=ph, payload2=payload2, tbs2=tbs2, m0=m0)


def mk_sm(prot, uhdr, payload, sig, extra=()):
    return cenc([prot, uhdr, payload, sig, *extra])


def variants_of(g, signed, rng):
    """All verify inputs derived from one signed message: list of dict(sm, key, cls, what, flip)."""
    import random
    rng = random.Random(g['seed'])
    sm = bytes.fromhex(signed['sig'])
    key = None if signed['key'] is None else bytes.fromhex(signed['key'])
    K, A, net, attach = g['key'], g['att'], g['net'], g['attach']
    out = [dict(sm=sm, key=key, cls='orig', what='orig', flip=None)]
    # the authentic message in the other spellings of the same bytes (hex digits in upper / mixed case, blanks between bytes)
    for sp in ('upper', 'mixed', 'spaced'):
        out.append(dict(sm=sm, key=key, cls='orig', what='orig-hex-' + sp, flip=None, spell=sp))
    try:
        reg = G.regions(sm)
        arr, _ = cdec(sm, 0)
        prot, uhdr, payload, sig = arr
        pairs, _ = cdec(prot, 0)
        assert isinstance(pairs, Pairs)
    except (G.Malformed, ValueError, AssertionError):
        return out                                   # the orig case will fail the oracle / correspondence
    def add(cls, what, sm2, key2=key, flip=None):
        out.append(dict(sm=sm2, key=key2, cls=cls, what=what, flip=flip))
    # ---- single-bit alterations of the three signed regions
    for name in ('payload', 'phdr', 'sig'):
        lo, hi = reg[name]
        bits = [(o, b) for o in range(lo, hi) for b in range(8)]
        if g['flips'] != 'all':
            bits = rng.sample(bits, min(g['flips'], len(bits)))
        for o, b in bits:
            bb = bytearray(sm); bb[o] ^= 1 << b
            add('tamper', 'bit-' + name, bytes(bb), flip=(o, b))
    if g.get('forgery'):
        f = g['forgery']
        tbs0 = G.sig_structure(prot, payload)
        assert tbs0.endswith(f['tbs2'])
        sig2 = sig + tbs0[:len(tbs0) - len(f['tbs2'])]
        add('tamper', 'long-key-sig-split', mk_sm(f['ph'], uhdr, f['payload2'], sig2), cenc(Pairs([(1, 1), (3, -8), (-1, 6), (-2, K['vk'] + f['cc'])])))
        add('tamper', 'long-key-sig-split', mk_sm(f['ph'], uhdr, f['payload2'], sig2[:64]), cenc(Pairs([(1, 1), (3, -8), (-1, 6), (-2, K['vk'] + f['cc'])])))
        return out
    # ---- substitutions
    def with_pairs(f):
        return cenc(Pairs(f([(k, v) for k, v in pairs])))
    def sub(label, val):
        return lambda ps: [(k, (val if k == label else v)) for k, v in ps]
    a_addr = G.addr_bytes(A, net)
    k_addr = G.addr_bytes(K, net)
    other_payload = b'pay 1000 ADA to mallory'
    if attach:
        add('tamper', 'other-key', sm, G.cose_key(A['vk']))
        add('tamper', 'key-x-bitflip', sm, G.cose_key(bytes([K['vk'][0] ^ 1]) + K['vk'][1:]))
    else:
        add('tamper', 'other-kid', mk_sm(with_pairs(sub(4, A['vk'])), uhdr, payload, sig))
        add('tamper', 'long-kid', mk_sm(with_pairs(sub(4, K['vk'] + bytes(32))), uhdr, payload, sig))
    add('tamper', 'other-address', mk_sm(with_pairs(sub(T(b'address'), a_addr)), uhdr, payload, sig))
    add('tamper', 'other-payload', mk_sm(prot, uhdr, other_payload, sig))
    add('tamper', 'sig-zero', mk_sm(prot, uhdr, payload, bytes(64)))
    add('tamper', 'sig-short', mk_sm(prot, uhdr, payload, sig[:63]))
    add('tamper', 'sig-long', mk_sm(prot, uhdr, payload, sig + b'\x00'))
    add('tamper', 'sig-empty', mk_sm(prot, uhdr, payload, b''))
    # attacker signs, claims the victim's address
    ps = [(1, -8), (T(b'address'), k_addr)] + ([] if attach else [(4, A['vk'])])
    p2 = cenc(Pairs(ps))
    for pl in (payload, other_payload):
        add('tamper', 'attacker-signed-victim-address', mk_sm(p2, uhdr, pl, G.ref_sign(A, G.sig_structure(p2, pl))),
            G.cose_key(A['vk']) if attach else None)
    # both key-carrying modes in ONE message: the attacker signs and attaches his own COSE key, the protected header names
    # the victim's address AND carries the victim's public key as key id (sign() never emits this mix)
    p3 = cenc(Pairs([(1, -8), (T(b'address'), k_addr), (4, K['vk'])]))
    for pl in (payload, other_payload):
        add('tamper', 'attacker-key-attached-victim-kid', mk_sm(p3, uhdr, pl, G.ref_sign(A, G.sig_structure(p3, pl))), G.cose_key(A['vk']))
    # the other way round: the victim's key attached, the header's key id and signature are the attacker's
    p4 = cenc(Pairs([(1, -8), (T(b'address'), k_addr), (4, A['vk'])]))
    add('tamper', 'victim-key-attached-attacker-kid', mk_sm(p4, uhdr, other_payload, G.ref_sign(A, G.sig_structure(p4, other_payload))), G.cose_key(K['vk']))
    # victim's header and key, attacker's signature over another payload
    add('tamper', 'attacker-sig-victim-key', mk_sm(prot, uhdr, other_payload, G.ref_sign(A, G.sig_structure(prot, other_payload))))
    # the same credential presented as the other kind of address, not re-signed
    flipkind = bytes([k_addr[0] ^ 0x80]) + k_addr[1:]
    add('tamper', 'address-kind-swapped', mk_sm(with_pairs(sub(T(b'address'), flipkind)), uhdr, payload, sig))
    # ---- the protected header re-serialised differently (same parse): must be rejected since e3a6d93
    add('tamper', 'phdr-reencoded', mk_sm(prot[:1] + b'\x18\x01' + prot[2:], uhdr, payload, sig))
    add('tamper', 'phdr-reencoded', mk_sm(prot + b'\x00', uhdr, payload, sig))
    add('tamper', 'phdr-reencoded', mk_sm(prot[:1] + b'\x63alg' + prot[2:], uhdr, payload, sig))
    add('tamper', 'phdr-reencoded', mk_sm(prot[:2] + b'\x65eddsa' + prot[3:], uhdr, payload, sig))
    add('tamper', 'phdr-reencoded', mk_sm(bytes([prot[0] + 1]) + prot[1:3] + b'\x67address\x41\x00' + prot[3:], uhdr, payload, sig))
    add('tamper', 'phdr-reencoded', mk_sm(b'\xbf' + prot[1:] + b'\xff', uhdr, payload, sig))
    add('tamper', 'phdr-reencoded', mk_sm(bytes([prot[0] + 1]) + b'\x01\x26' + prot[1:], uhdr, payload, sig))   # duplicate alg label, last wins
    # ---- nothing the property speaks about (correspondence only)
    add('neutral', 'outer-trailing', sm + b'\x00')
    add('neutral', 'extra-element', mk_sm(prot, uhdr, payload, sig, (1, b'x')))
    add('neutral', 'uhdr-empty', mk_sm(prot, Pairs(), payload, sig))
    add('neutral', 'uhdr-alg-too', mk_sm(prot, Pairs([(1, -8)]), payload, sig))
    add('neutral', 'uhdr-bad-kid', mk_sm(prot, Pairs([(4, 7)]), payload, sig))
    add('neutral', 'uhdr-not-map', mk_sm(prot, [1], payload, sig))
    add('neutral', 'outer-indefinite', b'\x9f' + sm[1:] + b'\xff')
    add('neutral', 'outer-short', cenc([prot, uhdr, payload]))
    add('neutral', 'outer-not-array', cenc(7))
    add('neutral', 'payload-not-bytes', mk_sm(prot, uhdr, T(b'hi'), sig))
    add('neutral', 'prot-not-bytes', mk_sm(5, uhdr, payload, sig))
    add('neutral', 'prot-empty', mk_sm(b'', uhdr, payload, sig))
    add('neutral', 'sig-not-bytes', mk_sm(prot, uhdr, payload, 5))
    if len(payload) > 256:
        return out                                   # long messages: the header/key families below do not depend on the payload
    # ---- messages validly signed by K itself with other (legal) headers
    def signed_by_K(what, ps, key2=None, uh=uhdr, cls='neutral'):
        p = cenc(Pairs(ps)) if not isinstance(ps, bytes) else ps
        add(cls, what, mk_sm(p, uh, payload, G.ref_sign(K, G.sig_structure(p, payload))), key2 if attach else None)
    kid = [] if attach else [(4, K['vk'])]
    ck = G.cose_key(K['vk'])
    h = G.H28(K['vk'])
    signed_by_K('self-canonical', [(1, -8), (T(b'address'), k_addr)] + kid, ck)
    signed_by_K('self-kid-first', kid + [(T(b'address'), k_addr), (1, -8)], ck)
    signed_by_K('self-extra-entries', [(1, -8), (T(b'address'), k_addr)] + kid + [(T(b'note'), [1, T(b'two'), b'\x03']), (17, -5), (3, 0), (5, b'iv')], ck)
    signed_by_K('self-bad-content-type', [(1, -8), (T(b'address'), k_addr)] + kid + [(3, -1)], ck)
    signed_by_K('self-alg-in-uhdr', [(T(b'address'), k_addr)] + kid, ck, uh=Pairs([(1, -8)]))
    signed_by_K('self-no-alg', [(T(b'address'), k_addr)] + kid, ck)
    signed_by_K('self-alg-es256', [(1, -7), (T(b'address'), k_addr)] + kid, ck)
    signed_by_K('self-alg-unknown', [(1, 99), (T(b'address'), k_addr)] + kid, ck)
    signed_by_K('self-no-address', [(1, -8)] + kid, ck)
    signed_by_K('self-address-int', [(1, -8), (T(b'address'), 5)] + kid, ck)
    signed_by_K('self-address-empty', [(1, -8), (T(b'address'), b'')] + kid, ck)
    signed_by_K('self-base-address', [(1, -8), (T(b'address'), bytes([0x00 | net]) + h + G.H28(A['vk']))] + kid, ck)
    signed_by_K('self-base-address-as-stake', [(1, -8), (T(b'address'), bytes([0x00 | net]) + G.H28(A['vk']) + h)] + kid, ck)
    signed_by_K('self-script-address', [(1, -8), (T(b'address'), bytes([0x70 | net]) + h)] + kid, ck)
    signed_by_K('self-stake-script-address', [(1, -8), (T(b'address'), bytes([0xf0 | net]) + h)] + kid, ck)
    signed_by_K('self-other-kind-address', [(1, -8), (T(b'address'), flipkind)] + kid, ck)
    signed_by_K('self-pointer-address', [(1, -8), (T(b'address'), bytes([0x40 | net]) + h + b'\x81\x00\x02\x83\x7f')] + kid, ck)
    signed_by_K('self-pointer-bad', [(1, -8), (T(b'address'), bytes([0x40 | net]) + h + b'\x81\x00\x02')] + kid, ck)
    signed_by_K('self-byron-type', [(1, -8), (T(b'address'), bytes([0x80 | net]) + h)] + kid, ck)
    signed_by_K('self-bad-network', [(1, -8), (T(b'address'), bytes([0x65]) + h)] + kid, ck)
    signed_by_K('self-bad-type', [(1, -8), (T(b'address'), bytes([0x90]) + h)] + kid, ck)
    signed_by_K('self-short-hash', [(1, -8), (T(b'address'), bytes([0x60 | net]) + h[:27])] + kid, ck)
    hrp = ('stake' if 'stake' in K['kind'] else 'addr') + ('' if net == 1 else '_test')
    signed_by_K('self-text-address', [(1, -8), (T(b'address'), T(G.bech32_encode(hrp, k_addr).encode()))] + kid, ck)
    signed_by_K('self-text-address-bad', [(1, -8), (T(b'address'), T(b'addr1notbech32'))] + kid, ck)
    cc = bytes(range(32))
    xk = K['vk'] + cc
    xaddr = bytes([k_addr[0]]) + G.H28(xk)
    xkid = [] if attach else [(4, xk)]
    xck = cenc(Pairs([(1, 1), (3, -8), (-1, 6), (-2, xk)]))
    # attached separately, the key blob is not covered by the signature: the signer's 32 bytes followed by 32 others is an
    # ALTERED key (its hash is not the address credential) -- success would report a binding nobody signed
    signed_by_K('self-extended-kid-honest-address', [(1, -8), (T(b'address'), k_addr)] + xkid, xck, cls='tamper' if attach else 'neutral')
    if attach:
        for extra in (b'\x00', bytes(31), bytes(range(64))):
            signed_by_K('attached-key-x-extended-%d' % len(extra), [(1, -8), (T(b'address'), k_addr)],
                        cenc(Pairs([(1, 1), (3, -8), (-1, 6), (-2, K['vk'] + extra)])), cls='tamper')
    signed_by_K('self-extended-kid-whole-key-hash', [(1, -8), (T(b'address'), xaddr)] + xkid, xck)
    if attach:
        pk2 = [(1, -8), (T(b'address'), k_addr)]
        for what, kp in (('key-no-alg', [(1, 1), (-1, 6), (-2, K['vk'])]), ('key-ops-verify', [(1, 1), (4, [2]), (-1, 6), (-2, K['vk'])]),
                         ('key-ops-sign-only', [(1, 1), (4, [1]), (-1, 6), (-2, K['vk'])]), ('key-ops-unknown', [(1, 1), (4, [11]), (-1, 6), (-2, K['vk'])]),
                         ('key-alg-es256', [(1, 1), (3, -7), (-1, 6), (-2, K['vk'])]), ('key-alg-unknown', [(1, 1), (3, 99), (-1, 6), (-2, K['vk'])]),
                         ('key-crv-x25519', [(1, 1), (-1, 4), (-2, K['vk'])]), ('key-crv-ed448', [(1, 1), (-1, 7), (-2, K['vk'])]),
                         ('key-crv-p256', [(1, 1), (-1, 1), (-2, K['vk'])]), ('key-crv-unknown', [(1, 1), (-1, 9), (-2, K['vk'])]),
                         ('key-no-crv', [(1, 1), (-2, K['vk'])]), ('key-no-kty', [(-1, 6), (-2, K['vk'])]), ('key-kty-5', [(1, 5), (-1, 6), (-2, K['vk'])]),
                         ('key-no-x', [(1, 1), (-1, 6)]), ('key-d-only', [(1, 1), (-1, 6), (-4, bytes(32))]),
                         ('key-x-31', [(1, 1), (-1, 6), (-2, K['vk'][:31])]), ('key-dup-x', [(1, 1), (-1, 6), (-2, A['vk']), (-2, K['vk'])]),
                         ('key-with-kid', [(1, 1), (2, b'id'), (3, -8), (-1, 6), (-2, K['vk'])])):
            signed_by_K(what, pk2, cenc(Pairs(kp)))
    return out


# ------------------------------------------------------------------ reference answers (cached)
def _ref_verify(t):
    vk, m, s = t
    from refcrypto import ed25519_ref as ED
    return ED.verify(vk, m, s)


def ref_verify_all(triples):
    cache_p = os.path.join(C.WORK, PID, 'ref_cache.json')
    os.makedirs(os.path.dirname(cache_p), exist_ok=True)
    try:
        cache = json.load(open(cache_p))
    except Exception:
        cache = {}
    def hk(t):
        return hashlib.sha256(b'|'.join(x.hex().encode() for x in t)).hexdigest()[:32]
    todo = {}
    for t in triples:
        h = hk(t)
        if h not in cache and h not in todo:
            todo[h] = t
    if todo:
        items = list(todo.items())
        with ProcessPoolExecutor(max_workers=C.NPROC) as ex:
            res = list(ex.map(_ref_verify, [t for _, t in items], chunksize=64))
        for (h, _), r in zip(items, res):
            cache[h] = bool(r)
        keep = cache
        if len(cache) > 400000:                    # the file is trimmed; this run's answers come from the untrimmed table
            keep = {h: cache[h] for h in list(cache)[-200000:]}
        with open(cache_p + '.tmp', 'w') as f:
            json.dump(keep, f)
        os.replace(cache_p + '.tmp', cache_p)
    return {t: cache[hk(t)] for t in triples}, len(todo)


# ------------------------------------------------------------------ rendering
def render_shard(g, gi, signed, chunk, first, answers):
    """chunk: list of (local index, variant, outcome)"""
    sm = bytes.fromhex(signed['sig'])
    key = None if signed['key'] is None else bytes.fromhex(signed['key'])
    K = g['key']
    m = g['msg'].encode('utf-8')
    vk = K['vk']
    exp_ps = [(1, -8), (T(b'address'), G.addr_bytes(K, g['net']))] + ([] if g['attach'] else [(4, vk)])
    exp_prot = cenc(Pairs(exp_ps))
    tbs = G.sig_structure(exp_prot, m)                 # the harness's own expectation of the signed bytes
    bases = [('B', sm), ('M', m), ('VK', vk), ('TBS', tbs), ('HK', G.H28(vk)), ('SK', bytes.fromhex(K['sk']))]
    try:
        sig0 = cdec(sm, 0)[0][3]
        if type(sig0) is bytes and len(sig0) >= 8:
            bases.append(('SIG', sig0))
    except Exception:
        pass
    if key is not None:
        bases.append(('KB', key))
    body = [f'Definition {n} : bytes := {G.chx(b)}.' for n, b in bases]
    body.append('Definition K : option bytes := ' + ('None' if key is None else '(Some KB)') + '.')
    L = G.Lits(bases)
    tp = [] if K['kind'].startswith('x') else [(bytes.fromhex(K['sk']), vk)]
    items = []
    for li, v, o in chunk:
        qs, vks = G.predict_queries(v['sm'], v['key'])
        tv = [(a, mm, s, answers[(a, mm, s)]) for a, mm, s in qs]
        th = [(a, G.H28(a)) for a in vks]
        if v['cls'] == 'orig':
            cls = f'(VOrig {L.skey(K)} {G.r_net(g["net"])} M {L.tf(tp)})'
            if vk not in vks:
                th = th + [(vk, G.H28(vk))]
        else:
            cls = 'VTamper' if v['cls'] == 'tamper' else 'VNeutral'
        kx = 'K' if v['key'] == key else L.opt(v['key'])
        items.append(f'({li}%nat, mkV {L.hx(v["sm"])} {kx} {L.tv(tv)} {L.tf(th)} {L.tb(text_table(v))} {cls} {L.out(o)})')
    body.append('Definition vcases : list (nat * vcase) :=\n[' + ';\n '.join(items) + '].')
    sitems = []
    if first:
        sg = G.ref_sign(K, tbs)
        skb = bytes.fromhex(K['sk'])
        ts = [] if K['kind'].startswith('x') else [(skb, tbs, sg)]
        tx = [(skb[:64], tbs, sg)] if K['kind'].startswith('x') else []
        sitems.append(f'(0%nat, mkS {L.skey(K)} {G.r_net(g["net"])} {C.cbool(g["attach"])} M {L.tf(tp)} {L.ts(ts)} {L.ts(tx)} '
                      f'{L.tf([(vk, G.H28(vk))])} B K)')
    body.append('Definition scases : list (nat * scase) := [' + '; '.join(sitems) + '].')
    body.append('Definition flags := Eval vm_compute in (map (fun c => (fst c, c19_flags (snd c))) vcases).')
    body.append('Eval vm_compute in (map fst (filter (fun c => fst (fst (snd c))) flags)).')
    body.append('Eval vm_compute in (map fst (filter (fun c => snd (fst (snd c))) flags)).')
    body.append('Eval vm_compute in (map fst (filter (fun c => snd (snd c)) flags)).')
    body.append('Eval vm_compute in (map fst (filter (fun c => negb (c19_sign_corr (snd c))) scases)).')
    return '\n'.join(body) + '\n'


def text_table(v):
    """bech32 table: every text-valued "address" in the protected header, decoded by the harness's own rule:
    only the encodings the harness itself produced are known; anything else is declared undecodable."""
    out = []
    try:
        arr, _ = cdec(v['sm'], 0)
        pairs, _ = cdec(arr[0], 0)
    except Exception:
        return out
    if isinstance(pairs, Pairs):
        for k, val in pairs:
            if isinstance(k, T) and bytes(k) == b'address' and isinstance(val, T):
                out.append((bytes(val), v.get('bech', {}).get(bytes(val))))
    return out


# ------------------------------------------------------------------ the run
def run(ctx, groups):
    t0 = time.time()
    sign_cases = [dict(op='sign', kind=g['kind'], sk=g['key']['sk'], attach=g['attach'], net=g['net'], msg=g['msg'], warm=(gi % 2 == 1)) for gi, g in enumerate(groups)]
    signed = C.run_impl('cip8_driver', {'cases': sign_cases}, nshards=min(C.NPROC, len(sign_cases)))
    mism, ofail, notes = [], [], []
    allv = []                                       # (group index, variant)
    for gi, (g, s) in enumerate(zip(groups, signed)):
        if 'sig' not in s or not isinstance(s.get('sig'), str) or (g['attach'] and not isinstance(s.get('key'), str)):
            ofail.append({'input': {k: g[k] for k in ('kind', 'attach', 'net', 'msg')}, 'impl': s, 'region': 'sign-failed'})
            g['variants'] = []
            continue
        try:
            g['variants'] = variants_of(g, s, ctx.rng)
        except Exception as e:
            ofail.append({'input': {k: g[k] for k in ('kind', 'attach', 'net', 'msg')}, 'impl': s, 'region': 'sign-output-unparseable: ' + repr(e)[:80]})
            g['variants'] = [dict(sm=bytes.fromhex(s['sig']), key=None if s['key'] is None else bytes.fromhex(s['key']), cls='orig', what='orig', flip=None)]
        # bech32 knowledge for the text-address variants
        hrp = ('stake' if 'stake' in g['kind'] else 'addr') + ('' if g['net'] == 1 else '_test')
        ka = G.addr_bytes(g['key'], g['net'])
        for v in g['variants']:
            v['bech'] = {G.bech32_encode(hrp, ka).encode(): ka}
        allv += [(gi, v) for v in g['variants']]
    t1 = time.time()
    vcases = [dict(op='verify', vs=[[v['sm'].hex(), None if v['key'] is None else v['key'].hex(), None, v.get('spell')]
                                    for v in g['variants']])
              for g in groups if g['variants']]
    vres = C.run_impl('cip8_driver', {'cases': vcases}, nshards=min(C.NPROC, max(1, len(vcases))))
    it = iter(vres)
    for g in groups:
        if g['variants']:
            r = next(it)
            if 'driver_error' in r:
                raise RuntimeError('driver error: ' + r['driver_error'])
            g['outs'] = r['out']
    t2 = time.time()
    triples = []
    for gi, v in allv:
        triples += G.predict_queries(v['sm'], v['key'])[0]
    answers, computed = ref_verify_all(list(dict.fromkeys(triples)))
    t3 = time.time()
    shards, maps = [], []
    SH = 350
    for gi, (g, s) in enumerate(zip(groups, signed)):
        if not g['variants']:
            continue
        vs = list(zip(range(len(g['variants'])), g['variants'], g['outs']))
        for k in range(0, len(vs), SH):
            part = vs[k:k + SH]
            shards.append(render_shard(g, gi, s, [(j, v, o) for j, (_, v, o) in enumerate(part)], k == 0, answers))
            maps.append((gi, [i for i, _, _ in part]))
    results = C.run_cases(PID, shards, G.HEADER)
    t4 = time.time()
    errs = []
    def pack(gi, vi, region):
        g = groups[gi]; v = g['variants'][vi]
        return {'input': {'kind': g['kind'], 'attach': g['attach'], 'net': g['net'], 'msg': g['msg'] if len(g['msg']) < 200 else g['msg'][:200] + '…',
                          'sk': g['key']['sk'], 'what': v['what'], 'flip': v['flip'], 'sm': v['sm'].hex() if len(v['sm']) < 600 else v['sm'].hex()[:1200] + '…',
                          'key': None if v['key'] is None else v['key'].hex(), 'class': v['cls']},
                'impl': g['outs'][vi], 'region': region, '_replay': {'sm': v['sm'].hex(), 'key': None if v['key'] is None else v['key'].hex()}}
    for (ok, lists, log), (gi, idx) in zip(results, maps):
        if not ok or len(lists) != 4:
            errs.append(log[-1500:]); continue
        for j in lists[0]:
            mism.append(pack(gi, idx[j], 'model-differs:' + groups[gi]['variants'][idx[j]]['what']))
        for j in lists[1]:
            ofail.append(pack(gi, idx[j], groups[gi]['variants'][idx[j]]['what']))
        for j in lists[2]:
            mism.append(pack(gi, idx[j], 'table-miss:' + groups[gi]['variants'][idx[j]]['what']))
        for j in lists[3]:
            mism.append({'input': {k: groups[gi][k] for k in ('kind', 'attach', 'net', 'msg')} | {'sk': groups[gi]['key']['sk']},
                         'impl': signed[gi], 'region': 'sign-bytes-differ'})
    if errs:
        raise RuntimeError('cases file failed to compile: ' + errs[0])
    timing = dict(sign=round(t1 - t0, 1), verify=round(t2 - t1, 1), reference=round(t3 - t2, 1), coq=round(t4 - t3, 1), ref_computed=computed)
    return allv, mism, ofail, timing


def correspond(ctx, groups=None):
    groups = groups or groups_for(ctx)
    allv, mism, ofail, timing = run(ctx, groups)
    hist, whats = {}, {}
    for g in groups:
        for v, o in zip(g['variants'], g.get('outs', [])):
            k = v['cls'] + ':' + (('verified' if o[1] else 'not-verified') if o[0] == 'ok' else o[1])
            hist[k] = hist.get(k, 0) + 1
            whats[v['what']] = whats.get(v['what'], 0) + 1
    distinct = len({hashlib.sha256(v['sm'] + b'|' + (v['key'] or b'-')).hexdigest() for _, v in allv})
    g0 = groups[0]
    return dict(
        evaluations=len(allv) + len(groups), distinct_nontrivial=distinct,
        rule='signing scenarios = 4 key kinds x attach on/off x 2 networks over Unicode texts (empty, ASCII, BMP, astral plane, NUL, ~4 kB); '
             'for each: the untouched output, EVERY single-bit alteration of the payload, protected-header and signature byte-string contents '
             '(all bits when the three regions are listed as "all", else a sample), substitution of another key / KID / address / payload / '
             'signature, attacker-signed messages claiming the victim address, 7 re-serialisations of the protected header, the >32-byte-key '
             're-split forgery, structurally neutral edits, and ~45 foreign headers validly signed by the same key; non-trivial = every case; '
             'distinct by hash of (bytes, key)',
        samples=[{'kind': g0['kind'], 'attach': g0['attach'], 'net': g0['net'], 'msg': g0['msg'], 'variants': len(g0['variants'])},
                 {'what': allv[len(allv) // 2][1]['what'], 'sm': allv[len(allv) // 2][1]['sm'].hex()[:400]}],
        scenarios=len(groups), full_flip_scenarios=sum(1 for g in groups if g['flips'] == 'all'),
        message_bytes=sorted({len(g['msg'].encode()) for g in groups}),
        outcome_histogram=dict(sorted(hist.items())), variant_histogram=dict(sorted(whats.items())),
        compared='sign: model bytes = implementation bytes (signature and COSE key), Ed25519 deterministic incl. the extended-key path; '
                 'verify: verified flag, message bytes, address (header byte, payment part, staking part) or exception class; '
                 'oracle: untouched => verified with the signed text and the key\'s address; tampered => not verified / exception',
        timing=timing,
        mismatches=[strip(x) for x in mism[:20]],
        oracle_fail=[strip(x) for x in ofail[:50]],
    )


def strip(x):
    return x


def search(ctx, mism):
    """Something no longer checks: look for an input on which the property itself fails on the implementation."""
    ctx.rng.seed(f'search-{ctx.seed}')
    r = correspond(ctx)
    if r['oracle_fail']:
        return r['oracle_fail'][0]
    return None


def replay(ctx, rep):
    case = rep['case']
    rp = case.get('_replay')
    if not rp:
        print(json.dumps(case, indent=1)[:3000])
        return 1
    res = C.run_impl('cip8_driver', {'cases': [dict(op='verify', vs=[[rp['sm'], rp['key'], None]])]}, nshards=1)
    out = res[0]['out'][0]
    print('input:', json.dumps(case['input'])[:3000])
    print('implementation:', json.dumps(out))
    cls = case['input'].get('class')
    bad = (cls == 'tamper' and out[0] == 'ok' and out[1] is True) or (cls == 'orig' and not (out[0] == 'ok' and out[1] is True))
    print('class:', cls, ' property violated:', bad)
    return 1 if bad else 0
