"""C11 — redeemers point at the items they unlock; scripts and datums are supplied; the automatic
validity interval contains the current slot.  (Also hosts the Plutus scenario generator and the Coq
literal printer shared with C12.)"""
import hashlib, json, os
from lib import common as C
from props import alike as A

PID = 'C11'
TARGETS = ['props/C11.vo', 'theories/RedeemersOracle.vo']
LEVEL = 'proof'
KNOWN_REGIONS = []          # regions reported to the coordinator and awaiting an answer

MANIFEST = dict(
    text='Theorems (Coq, any number of inputs/policies/withdrawals/certificates, any order of add_* calls): after a '
         'successful build every redeemer in the transaction carries the tag of its purpose and the index of the item it '
         'was attached to in the ledger\'s canonical order (inputs by (tx id bytes, index), policies bytewise, script reward '
         'accounts by ledger order, certificates by position) — the index equals the number of smaller items; every script '
         'the calls need is shipped exactly once, in the witness bucket of its language or on a reference/spent input, '
         'never both; every datum supplied with a script input is in the witness datum list once; the automatic '
         'validity interval contains the current slot; calls that only name a UTxO (collateral, read-only reference input) or '
         'give an output a datum hash build what the history without them builds (C11_inert_calls). Model tied to the code by replaying scenarios on the real '
         'TransactionBuilder; the decision procedure is evaluated in Coq on the bytes of the returned transaction.',
    note='Trusted: Coq kernel+vm_compute; hand model Redeemers.v validated by differential runs; scenario generator; driver; '
         'script/datum hashes computed by hashlib in the harness and cross-checked with pycardano. Reward pointers are '
         'decided only when all reward accounts are script accounts (mixed key/script order is an open spec point).',
    technique='Coq proof (sorting/rank lemmas, state-machine invariants) + correspondence + oracle on transaction bytes',
    ref='C11')
TRUSTED = [
    'Coq 8.16.1 kernel incl. vm_compute (no native_compute); no axioms (see Print Assumptions lines)',
    'hand model coq/theories/Redeemers.v of the txbuilder.py slice (add_*script*, all_scripts, scripts, _redeemer_list, '
    '_set_redeemer_index, build_witness_set, _update_execution_units, validity part of build), tied by correspondence',
    'tools/impl/plutusbuild_driver.py (real TransactionBuilder, ChainContext subclass serving the scenario), '
    'tools/props/c11.py (generator, Coq literal printer), hashlib.blake2b for script and datum hashes',
    'Cbor.decode (proved inverse of the encoder) as the reader of the transaction bytes',
]
ASSUMPTIONS = [
    'distinct UTxOs spent by one transaction have distinct (tx id, index) (ledger fact; coin selection returns UTxOs not yet selected: C09)',
    'policy ids are 28 bytes (ScriptHash enforces it); each Redeemer object is attached at most once; each minting policy '
    'and each reward account gets at most one add_minting_script / add_withdrawal_script call (two redeemers for one '
    'ledger purpose cannot both be shipped: the redeemer map keeps the last)',
    'reward-account clause stated where bytewise order and the ledger\'s credential order agree (all accounts are script accounts)',
    'certificates are only appended after a certificate script was attached; reference inputs the caller adds himself '
    '(reference_inputs.add) carry no script the transaction needs (a witness script that is also resolvable by reference is an '
    'extraneous witness for the ledger); such read-only reference inputs, explicit collateral and hash-only output datums '
    'are calls of the model (C11_inert_calls)',
    'automatic validity: last_block_slot >= 0 and offsets with start <= 0 <= ttl (the defaults -1000 / +10000 qualify)',
]

# ------------------------------------------------------------------ tiny CBOR writer (shortest form)
def head(m, n):
    if n < 24:
        return bytes([m * 32 + n])
    if n < 256:
        return bytes([m * 32 + 24, n])
    if n < 65536:
        return bytes([m * 32 + 25]) + n.to_bytes(2, 'big')
    if n < 2 ** 32:
        return bytes([m * 32 + 26]) + n.to_bytes(4, 'big')
    return bytes([m * 32 + 27]) + n.to_bytes(8, 'big')


def e_int(n):
    return head(0, n) if n >= 0 else head(1, -1 - n)


def e_bytes(b):
    return head(2, len(b)) + b


def e_list(items, indef=True):
    if indef and items:
        return b'\x9f' + b''.join(items) + b'\xff'
    return head(4, len(items)) + b''.join(items)


def e_map(pairs):
    return head(5, len(pairs)) + b''.join(k + v for k, v in pairs)


def e_constr(i, fields, compact=False):
    """constructor i: tags 121..127 for 0..6; for 7..127 either the general form 102 [i, fields] or (compact) the tags
    1280..1400, which is what a PlutusData dataclass emits"""
    if i < 7:
        return head(6, 121 + i) + e_list(fields)
    if compact and i < 128:
        return head(6, 1280 + i - 7) + e_list(fields)
    return head(6, 102) + head(4, 2) + e_int(i) + e_list(fields)


# map keys of Plutus data: integers and byte strings of several encoded lengths, so that insertion order, bytewise
# order and canonical (length-first) order all differ
KEY_INTS = [0, 1, 2, 5, 23, 24, 25, 255, 256, 1000, 65536, -1, -2, -24, -25, -257]
KEY_BYTES = [b'', b'a', b'b', b'z', b'ab', b'zz', b'\x00', b'\xff', b'abc', b'\x00\x00', b'key-with-24-bytes-------', b'k' * 28]


def rand_keys(rng, n, top=False):
    """n distinct map keys (CBOR bytes) in random order; distinct as Python values too (ints vs bytes never collide)"""
    style = rng.randint(0, 4 if top else 3)
    if style == 4:       # top-level maps only: inside a RawPlutusData the user would have to write frozen keys by hand
        # keys that are constructors with fields (a map keyed by credential / asset class): in the Python value the key is a
        # hashable PlutusData instance, on the wire an indefinite-length list inside a map key
        pool = [e_constr(i, fs, compact=True) for i in (0, 1, 2, 6, 7) for fs in
                ([e_int(1)], [e_int(2)], [e_bytes(b'k' * 28)], [e_int(0), e_bytes(b'ab')], [e_bytes(b''), e_int(-1)])]
        return rng.sample(pool, n)
    pool = ([e_int(k) for k in KEY_INTS] if style == 0 else [e_bytes(k) for k in KEY_BYTES] if style == 1
            else [e_int(k) for k in KEY_INTS] + [e_bytes(k) for k in KEY_BYTES])
    return rng.sample(pool, n)


CKEYS = [False]     # set by rand_datum around its own top-level draw: constructor keys only in a datum that IS the map


def rand_map(rng, depth, first=None, ckeys=True):
    """a map with 0..4 entries in INSERTION order (random: usually neither bytewise nor canonical order);
    first = an entry that has to stay in first position"""
    n = rng.choice([0, 1, 2, 2, 3, 3, 4])
    keys = [k for k in rand_keys(rng, n, top=ckeys and CKEYS[0] and depth >= 2) if first is None or k != first[0]]
    if rng.random() < 0.15:
        keys.sort()                                             # bytewise order: still not canonical when lengths differ
    pairs = [(k, rand_pd(rng, depth - 1)) for k in keys]
    return e_map(([first] if first else []) + pairs)


def rand_pd(rng, depth=2):
    """random Plutus data, as CBOR bytes in the form pycardano emits"""
    k = rng.randint(0, 5 if depth > 0 else 1)
    if k == 0:
        return e_int(rng.choice([0, 1, 23, 24, 255, 256, 65535, 65536, 2 ** 32, 2 ** 63, -1, -25, -2 ** 40, rng.randint(0, 10 ** 6)]))
    if k == 1:
        return e_bytes(rng.randbytes(rng.choice([0, 1, 4, 28, 32, 64])))
    if k == 2:
        return e_list([rand_pd(rng, depth - 1) for _ in range(rng.randint(0, 3))])
    if k == 3:
        return rand_map(rng, depth)
    return e_constr(rng.choice([0, 1, 2, 6, 7, 12, 127, 128]), [rand_pd(rng, depth - 1) for _ in range(rng.randint(0, 3))],
                    compact=rng.random() < 0.5)


# datums that are FALSY as Python values when written the way a user writes them: 0, b'', {}, IndefiniteList([])
FALSY = [e_int(0), e_bytes(b''), e_map([]), b'\x9f\xff']


def rand_datum(rng):
    """(CBOR bytes, form): form 'prim' = the driver hands the datum over as the plain Python value (int, bytes, dict,
    IndefiniteList / list, RawPlutusData around a constructor), 'raw' = wrapped in RawCBOR (always a truthy object)"""
    if rng.random() < 0.12:
        return foreign_pd(rng), 'raw'
    CKEYS[0] = True
    try:
        b = rng.choice(FALSY) if rng.random() < 0.25 else rand_pd(rng)
    finally:
        CKEYS[0] = False
    return b, datum_form(rng, b)


def foreign_pd(rng):
    """Plutus data in a wire form pycardano itself would not emit for that content, as other tools and the chain have it (what a
    backend returns as RawCBOR): byte strings over 64 bytes in 64-byte chunks, definite-length non-empty lists (indefinite-length maps
    and non-shortest integers are left out: the Coq reader Cbor.dec, whose round trip is proved, does not read them).  Such a datum is only ever handed over verbatim (form 'raw'); its hash is the hash of
    these bytes."""
    def chunked(n):
        body = rng.randbytes(n)
        return b'\x5f' + b''.join(e_bytes(body[i:i + 64]) for i in range(0, n, 64)) + b'\xff'
    k = rng.randint(0, 3)
    if k == 0:
        return chunked(rng.choice([65, 100, 128, 129, 200]))
    if k == 1:
        return e_list([e_int(1), rand_pd(rng, 1), e_int(3)], indef=False)
    if k == 2:
        return head(6, 121 + rng.randint(0, 6)) + e_list([chunked(70), e_int(rng.randint(0, 99))])
    return head(6, 122) + e_list([e_int(7), e_map([(e_int(1), chunked(65))])], indef=False)


def datum_form(rng, b):
    """'raw' = RawCBOR, 'prim' = the plain Python value (RawPlutusData around a constructor), 'pdata' = a constructor as
    an instance of a PlutusData dataclass made for it (the driver falls back to 'prim' when the dataclass route cannot
    produce these bytes, e.g. a general-form tag 102 for a small constructor id, and counts what it really built).
    DOMAIN RESTRICTION (explicit): a top-level definite-length array would be a plain Python list, which is not a
    member of pycardano's Datum union (typeguard rejects it as TransactionOutput.datum); such datums stay RawCBOR."""
    if b[0] >> 5 == 4 and b[0] != 0x9f:
        return 'raw'
    if b[0] >> 5 == 6:
        return rng.choice(['prim', 'pdata', 'pdata', 'raw'])
    return rng.choice(['prim', 'prim', 'raw'])


def rdm_data(rng, rid):
    """redeemer data with the redeemer id in first position (so that the evaluator stub can recognise it)"""
    k = rng.randint(0, 3)
    if k == 0:
        return e_int(rid)
    if k == 1:
        return e_list([e_int(rid)] + [rand_pd(rng, 1) for _ in range(rng.randint(0, 2))])
    if k == 2:
        return e_constr(rng.choice([0, 1, 3, 9]), [e_int(rid)] + [rand_pd(rng, 2) for _ in range(rng.randint(0, 2))],
                        compact=rng.random() < 0.5)
    # (no constructor keys in redeemers: estimating execution units deep-copies the redeemer through from_cbor, which cannot
    # read such a map back -- known finding C18-map-key-unhashable-build)
    return rand_map(rng, 2, first=(e_int(rid), rand_pd(rng, 1)), ckeys=False)


def blake(b, n):
    return hashlib.blake2b(b, digest_size=n).digest()


PREFIX = {0: b'\x00', 1: b'\x01', 2: b'\x02', 3: b'\x03'}


def script_hash(spec):
    return blake(PREFIX[spec['lang']] + bytes.fromhex(spec['hex']), 28)


V1_NAMES = ['addInteger-cpu-arguments-intercept', 'addInteger-cpu-arguments-slope', 'bData-cpu-arguments',
            'cekApplyCost-exBudgetCPU', 'cekConstCost-exBudgetMemory', 'sha2_256-memory-arguments', 'Zeta', 'aaa',
            'verifySignature-cpu-arguments-intercept', 'trace-cpu-arguments', 'equalsInteger-memory-arguments', 'B-1']

# ------------------------------------------------------------------ scenario generator
FIRST = [0x00, 0x09, 0x0a, 0x10, 0x1f, 0x7f, 0x80, 0x99, 0x9a, 0xa0, 0xaf, 0xf0, 0xff]


def gen_scenario(rng, plain=False):
    """plain=True: no deliberately failing calls (used where only built transactions matter)"""
    S = dict(net=rng.choice([0, 1]), last_slot=rng.choice([0, 300, 999, 1000, 1001, 2000, 50000, 10 ** 8]),
             scripts=[], utxos=[], ops=[], mint=[], wdrl=[], eval={}, seed=rng.randint(0, 10 ** 9))
    plain = plain or rng.random() < 0.5
    bad = (lambda p: False) if plain else (lambda p: rng.random() < p)
    txids = []

    def new_txid():
        if txids and rng.random() < 0.25:
            return rng.choice(txids)
        if txids and rng.random() < 0.2:                      # long common prefix with an existing id
            t = bytearray(rng.choice(txids)); k = rng.choice([1, 2, 31]); t[k] = rng.choice(FIRST)
            t = bytes(t)
        else:
            t = bytes([rng.choice(FIRST)]) + rng.randbytes(31)
        txids.append(t)
        return t

    used_in = set()

    def new_utxo(script_addr, pay, coin, datum=None, script=None, chain=True):
        while True:
            t, ix = new_txid(), rng.choice([0, 1, 2, 9, 10, 11, 99, 100, 255, 256])
            if (t, ix) not in used_in:
                break
        used_in.add((t, ix))
        S['utxos'].append(dict(id=t.hex(), ix=ix, script_addr=script_addr, pay=pay.hex(), coin=coin, datum=datum,
                               script=script, chain=chain))
        return len(S['utxos']) - 1

    def new_script(lang=None):
        lang_free = lang is None
        lang = rng.choice([1, 2, 2, 3, 3, 0]) if lang is None else lang
        if lang == 0:
            if rng.random() < 0.7:
                b = head(4, 2) + e_int(0) + e_bytes(rng.randbytes(28))
            else:
                subs = [head(4, 2) + e_int(0) + e_bytes(rng.randbytes(28)) for _ in range(rng.randint(1, 2))]
                b = head(4, 2) + e_int(rng.choice([1, 2])) + head(4, len(subs)) + b''.join(subs)
            spec = dict(lang=0, hex=b.hex(), raw=False)
        else:
            # "twins": the same program bytes under another language (a different script: other tag, other hash; but
            # equal as Python objects, the Plutus script classes being bytes subclasses), under the same language
            # (the same script a second time, possibly as plain bytes), or equal to the CBOR of a native script
            plut = [x for x in S['scripts'] if x['lang'] != 0]
            nat = [x for x in S['scripts'] if x['lang'] == 0]
            if plut and rng.random() < 0.35:
                base = rng.choice(plut)
                if lang_free and rng.random() < 0.8:
                    lang = rng.choice([l for l in (1, 2, 3) if l != base['lang']])
                hx = base['hex']
            elif nat and rng.random() < 0.05:
                hx = rng.choice(nat)['hex']
            else:
                hx = rng.randbytes(rng.choice([5, 12, 30, 64, 65, 90])).hex()
            spec = dict(lang=lang, hex=hx, raw=(lang == 1 and rng.random() < 0.15))
        S['scripts'].append(spec)
        return len(S['scripts']) - 1

    def pick_script(lang=None):
        cands = [i for i, s in enumerate(S['scripts']) if lang is None or s['lang'] == lang]
        if cands and rng.random() < 0.25:
            return rng.choice(cands)
        return new_script(lang)

    def shash(sid):
        return script_hash(S['scripts'][sid])

    rid_ctr = [0]
    mode = rng.choice(['supplied', 'evaluated', 'evaluated'])

    def new_rdm(tag, plutus=True):
        rid_ctr[0] += 1
        rid = rid_ctr[0]
        units = [rng.choice([1, 500, 1000, 123457, 999999]), rng.choice([1, 7, 10 ** 6, 987654321])] if mode == 'supplied' else None
        if bad(0.02):
            units = None if units else [5, 5]                  # mixes supplied / not supplied
        if mode == 'evaluated' and not bad(0.02):
            S['eval'][str(rid)] = [rng.choice([0, 1, 3, 1000, 123457, 2 ** 20 + 1, 13999999]), rng.choice([0, 9, 10 ** 6, 987654321, 2 ** 33 + 5])]
        t = None
        if rng.random() < 0.2:
            t = tag
        if bad(0.02):
            t = (tag + 1) % 4
        data = rdm_data(rng, rid)
        # how the redeemer data is handed over: RawCBOR, the plain Python value, or a PlutusData dataclass instance
        form = 'raw' if data[0] >> 5 == 4 and data[0] != 0x9f else rng.choice(['raw', 'prim', 'prim'] + ['pdata'] * (2 * (data[0] >> 5 == 6)))
        return dict(rid=rid, tag=t, data=data.hex(), units=units, form=form)

    def holder(sid):
        """a reference UTxO carrying script sid"""
        return new_utxo(rng.random() < 0.3, rng.randbytes(28), rng.choice([1500000, 20000000]), script=sid)

    def src_for(sid, allow_none_for=None):
        if rng.random() < 0.45:
            return ['utxo', holder(sid)]
        return ['script', sid]

    free, certseq = [], []           # freely ordered ops; certificate-related ops keep their relative order
    supplied_datums, direct_scripts = [], []   # datums supplied for hash-locked inputs; Plutus scripts handed over as objects
    lookalike = []                              # constructor datums handed over as dataclass instances
    # --- script inputs
    for _ in range(rng.choice([0, 1, 1, 2, 2, 3, 4])):
        sid = pick_script()
        plutus = S['scripts'][sid]['lang'] != 0
        pay = shash(sid)
        dmode = rng.choice(['hash+', 'hash+', 'hash', 'inline', 'none', 'none+'])
        if bad(0.03):
            dmode = rng.choice(['inline+', 'hashwrong'])
        dcbor, dform = rand_datum(rng)
        if lookalike and rng.random() < 0.3:
            # a LOOK-ALIKE of an earlier datum of this transaction: the same fields under another constructor id (different
            # bytes, different hash; as dataclass instances of equally named classes they print the same)
            base = rng.choice(lookalike)
            dcbor = b'\xd8' + bytes([rng.choice([t for t in range(0x79, 0x80) if t != base[1]])]) + base[2:]
            dform = 'pdata'
        if dcbor[:1] == b'\xd8' and 0x79 <= dcbor[1] <= 0x7f and dform == 'pdata':
            lookalike.append(dcbor)
        datum, dsup = None, None
        if dmode.startswith('hash'):
            datum = ['hash', blake(dcbor, 32).hex()]
            if dmode == 'hash+':
                dsup = dcbor.hex()
            if dmode == 'hashwrong':
                dsup = (dcbor + b'\x00').hex() if False else e_list([dcbor]).hex()
        elif dmode.startswith('inline'):
            datum = ['inline', dcbor.hex(), dform]
            if dmode == 'inline+':
                dsup = dcbor.hex()
        elif dmode == 'none+':
            dsup = dcbor.hex()
        smode = rng.choice(['wit', 'wit', 'ref', 'ref', 'spent', 'ctx'])
        if bad(0.03):
            smode = rng.choice(['wrong', 'refnoscript', 'ctxnone'])
        on_utxo = sid if smode == 'spent' else None
        if smode != 'spent' and bad(0.05):
            on_utxo = new_script()                              # the spent UTxO carries an unrelated script: it shadows every other source
        uid = new_utxo(True, pay, rng.choice([1200000, 1500000, 3000000]), datum=datum, script=on_utxo)
        if smode == 'wit':
            src = ['script', sid]
        elif smode == 'ref':
            src = ['utxo', holder(sid)]
        elif smode == 'spent':
            src = rng.choice([['none'], ['script', sid]])
        elif smode == 'ctx':
            if rng.random() < 0.4:
                new_utxo(True, pay, 2000000, script=new_script())   # another UTxO at the address, with a different script
            new_utxo(True, pay, 2000000, script=sid)
            src = ['none']
        elif smode == 'wrong':
            src = ['script', new_script()]
        elif smode == 'refnoscript':
            src = ['utxo', new_utxo(False, rng.randbytes(28), 2000000)]
        else:
            src = ['none']
        r = None
        if (plutus and not bad(0.05)) or (not plutus and bad(0.05)):
            r = new_rdm(0)
        free.append(['sinput', uid, src, dsup, r, dform])
        if rng.random() < 0.12:                                 # the script UTxO is also swept up by a plain add_input
            free.append(['input', uid])
            S['distinct_objects'] = True
        if dsup is not None and dmode == 'hash+':
            supplied_datums.append((dcbor, dform))
        if smode == 'wit' and plutus:
            direct_scripts.append(sid)
        if rng.random() < 0.06:                                 # the same UTxO registered a second time
            r2 = new_rdm(0) if r is not None else None
            free.append(['sinput', uid, src, dsup, r2, dform])
    # --- key-locked inputs
    change = rng.randbytes(28)
    for _ in range(rng.choice([0, 1, 1, 2, 3])):
        uid = new_utxo(False, rng.choice([change, rng.randbytes(28)]), rng.choice([1500000, 2000000, 30000000]),
                       script=(pick_script() if rng.random() < 0.1 else None))
        free.append(['input', uid])
        if rng.random() < 0.05:
            free.append(['input', uid])
    # --- bank at the change address (coin selection, collateral)
    for _ in range(rng.randint(2, 4)):
        new_utxo(False, change, rng.choice([6000000, 25000000, 80000000]))
    # the wallet UTxO on which a script was deployed: at the change address (automatic collateral may pick it) or named as
    # collateral explicitly; it is neither spent nor a reference input unless coin selection takes it
    late = []
    for _ in range(rng.choice([0, 0, 1, 1, 2])):
        sid = rng.choice(direct_scripts) if direct_scripts and rng.random() < 0.7 else pick_script()
        uid = new_utxo(False, change if rng.random() < 0.6 else rng.randbytes(28), rng.choice([5000000, 9000000, 40000000]), script=sid)
        if rng.random() < 0.6:
            late.append(['coll', uid])
    # --- mint
    # DOMAIN RESTRICTION (explicit): a policy / reward account gets at most one add_*_script call.  Two calls for the
    # same policy hand over two redeemers for ONE ledger purpose (mint, rank of the policy): the redeemer map keeps the
    # last one only, the list form ships two entries with the same pointer — a misuse the builder does not reject and
    # that no transaction can express; it is outside "0..3 minting policies / 0..2 script withdrawals".
    pols, pol_seen, acct_seen = [], set(), set()
    for _ in range(rng.choice([0, 0, 1, 1, 2, 3])):
        sid = pick_script()
        plutus = S['scripts'][sid]['lang'] != 0
        if shash(sid) in pol_seen:
            continue
        pol_seen.add(shash(sid))
        r = new_rdm(1) if (plutus and not bad(0.05)) or (not plutus and bad(0.05)) else None
        free.append(['mint', src_for(sid), r])
        if not bad(0.03):
            pols.append((shash(sid), sid))
    for _ in range(rng.choice([0, 0, 0, 1, 2])):
        pols.append((bytes([rng.choice(FIRST)]) + rng.randbytes(27), None))     # a policy without an attached script
    rng.shuffle(pols)
    S['mint'] = [[p.hex(), [[rng.randbytes(rng.choice([0, 3, 8])).hex(), rng.choice([1, 5, 1000])]]] for p, _ in pols]
    # --- withdrawals
    accts = []
    for _ in range(rng.choice([0, 0, 1, 1, 2])):
        sid = pick_script()
        plutus = S['scripts'][sid]['lang'] != 0
        a = bytes([0xF0 | S['net']]) + shash(sid)
        if a in acct_seen:
            continue
        acct_seen.add(a)
        r = new_rdm(3) if (plutus and not bad(0.05)) or (not plutus and bad(0.05)) else None
        free.append(['wdrl', src_for(sid), r])
        if not bad(0.03):
            accts.append(a)
    if rng.random() < 0.2:
        accts.append(bytes([0xE0 | S['net']]) + rng.randbytes(28))               # a key reward account (mixed case)
    if rng.random() < 0.1:
        accts.append(bytes([0xF0 | S['net']]) + rng.randbytes(28))               # a script account without attached script
    rng.shuffle(accts)
    S['wdrl'] = [[a.hex(), rng.choice([1000000, 2500000])] for a in accts]
    # --- certificates
    if bad(0.02):
        certseq.append(['cert', ['script', pick_script(2)], new_rdm(2)])          # before any certificate: assertion
    for _ in range(rng.choice([0, 0, 0, 1, 2, 3])):
        if rng.random() < 0.7:
            sid = pick_script()
            plutus = S['scripts'][sid]['lang'] != 0
            certseq.append(['addcert', dict(cred_script=True, cred=shash(sid).hex(), pool=rng.randbytes(28).hex())])
            r = new_rdm(2) if (plutus and not bad(0.05)) or (not plutus and bad(0.05)) else None
            certseq.append(['cert', src_for(sid), r])
        else:
            certseq.append(['addcert', dict(cred_script=False, cred=rng.randbytes(28).hex(), pool=rng.randbytes(28).hex())])
    # --- extra datum in the witness set
    # add_output(o, datum=D, add_datum_to_witness=flag): D fresh or EQUAL to a datum supplied for a spent input (the
    # continuing output keeps its state), flag True or False (the default) — in any order relative to the other calls
    for _ in range(rng.choice([0, 0, 1, 1, 2])):
        od = rng.choice(supplied_datums) if supplied_datums and rng.random() < 0.6 else rand_datum(rng)
        free.append(['outdatum', od[0].hex(), od[1], rng.random() < 0.5])
    S['native'] = [pick_script(0) for _ in range(rng.choice([0, 0, 0, 0, 1, 2]))]
    # SECOND BUILD of the same builder (15 %): after the first transaction was built the caller additionally mints under a
    # native policy — builder.mint and builder.native_scripts are assigned — and builds again.  The second transaction is
    # judged by the property's decision procedure alone (what the calls of BOTH phases need must be shipped exactly once, ...)
    if rng.random() < 0.15:
        sid = new_script(0)
        pol = shash(sid)
        if pol.hex() not in [p for p, _ in S['mint']]:
            S['phase2'] = dict(native=S['native'] + [sid],
                               mint=S['mint'] + [[pol.hex(), [[rng.randbytes(rng.choice([0, 4])).hex(), rng.choice([1, 7])]]]])
    # --- random interleaving; certificate ops keep their order
    # read-only reference inputs (an oracle / configuration UTxO the validator reads): builder.reference_inputs.add(utxo).
    # Some carry a script the transaction does NOT use, of any language (DOMAIN: never a script that is needed — a witness
    # script that is also resolvable by reference is an extraneous witness for the ledger)
    for _ in range(rng.choice([0, 0, 0, 1, 1, 2])):
        carried = None
        if rng.random() < 0.7:                        # fresh bytes: its hash is the hash of no script the calls name
            S['scripts'].append(dict(lang=rng.choice([1, 2, 3]), hex=rng.randbytes(rng.choice([7, 33, 70])).hex(), raw=False))
            carried = len(S['scripts']) - 1
        uid = new_utxo(rng.random() < 0.3, rng.randbytes(28), rng.choice([1500000, 4000000]), script=carried,
                       datum=(['inline', rand_datum(rng)[0].hex(), 'raw'] if rng.random() < 0.3 else None))
        late.append(['refin', uid])
    free += late
    rng.shuffle(free)
    ops = []
    while free or certseq:
        if certseq and (not free or rng.random() < len(certseq) / (len(free) + len(certseq))):
            ops.append(certseq.pop(0))
        else:
            ops.append(free.pop(0))
    S['ops'] = ops
    buf = rng.choice([(0.2, 0.2), (0.2, 0.2), (0.0, 0.5), (0.25, 1.0), (0.1, 0.0)])
    S['build'] = dict(change=change.hex(), use_map=rng.random() < 0.6,
                      vstart=rng.choice([None] * 8 + [0, 100]), ttl=rng.choice([None] * 8 + [5, 10 ** 9]),
                      off_start=rng.choice([None] * 5 + [-5000, -1, 0, 700]), off_ttl=rng.choice([None] * 5 + [0, 1, 3000, -700]),
                      mem_buf=buf[0], step_buf=buf[1],
                      pay=[rng.choice([3000000, 12000000, 40000000]) for _ in range(rng.choice([0, 0, 1, 1, 2]))])
    # protocol_param.cost_models as the backends deliver it: keyed by parameter names in any dict order (Blockfrost,
    # Ogmios), by zero-padded decimal strings (Ogmios v6 for PlutusV3), or by INTEGER positions (cardano-cli reporting
    # lists: {i: v for i, v in enumerate(...)}) of lengths around 10 / 100 and of real size.  JSON has no integer keys:
    # the languages listed in cm_int_keys have their keys converted with int() by the driver.
    # DOMAIN (explicit): integer positions are 0..n-1; their dict order is ascending (what enumerate gives), scrambled
    # only for PlutusV1, whose parameters the code sorts; one dict never mixes str and int keys (sorted() would raise).
    cms, int_keys = {}, []
    vals = [0, 1, 23, 24, 255, 256, 65536, 2 ** 31, 2 ** 40, -1, -300]
    for v in (1, 2, 3):
        if rng.random() < 0.85:
            shape = rng.choice(['names', 'names', 'pos', 'pos', 'padded'])
            if shape == 'names':
                names = V1_NAMES[:] if v == 1 else [f'p{v}-{i:02d}-{rng.choice("abzAZ")}' for i in range(12)]
                rng.shuffle(names)
                names = names[:rng.randint(3, len(names))]
            else:
                n = rng.choice([2, 9, 10, 10, 11, 11, 12, 12, 13, 20, 21, 25, 101, 111, 166])
                names = [str(i) if shape == 'pos' else f'{i:0{len(str(n))}d}' for i in range(n)]
                if v == 1 and rng.random() < 0.4:
                    rng.shuffle(names)
                if shape == 'pos':
                    int_keys.append(f'PlutusV{v}')
            cms[f'PlutusV{v}'] = {n: (rng.choice(vals) if rng.random() < 0.3 else rng.randint(0, 10 ** 7)) for n in names}
    S['cm_int_keys'] = int_keys
    S['cost_models'] = cms
    return S


# ------------------------------------------------------------------ Coq literals
N_, Z_ = C.cn, C.cz
LANG = {0: 'LNative', 1: 'LV1', 2: 'LV2', 3: 'LV3'}


def HX(b):
    return f'(hxl "{bytes(b).hex()}")'


class Names:
    """per-case Coq definitions of the scenario's scripts and UTxOs, referred to by name afterwards"""
    def __init__(self, S, tag):
        self.S, self.tag = S, tag

    def script(self, sid):
        return f's{self.tag}_{sid}'

    def utxo(self, uid):
        return f'u{self.tag}_{uid}'

    def defs(self):
        S = self.S
        out = []
        for sid, sp in enumerate(S['scripts']):
            out.append(f'Definition {self.script(sid)} := mkScript {LANG[sp["lang"]]} {HX(script_hash(sp))}.')
        for uid, u in enumerate(S['utxos']):
            d = u['datum']
            dat = 'ONone' if d is None else (f'(OHash {HX(bytes.fromhex(d[1]))})' if d[0] == 'hash' else f'(OInline {HX(bytes.fromhex(d[1]))})')
            sc = 'None' if u['script'] is None else f'(Some {self.script(u["script"])})'
            out.append(f'Definition {self.utxo(uid)} := mkUtxo ({HX(bytes.fromhex(u["id"]))}, {N_(u["ix"])}) '
                       f'{C.cbool(u["script_addr"])} {HX(bytes.fromhex(u["pay"]))} {dat} {sc}.')
        return '\n'.join(out) + '\n'


def r_script(S, sid):
    return S['_names'].script(sid)


def r_utxo(S, uid):
    return S['_names'].utxo(uid)


def r_datum(hexcbor):
    b = bytes.fromhex(hexcbor)
    return f'(mkDatum {HX(blake(b, 32))} {HX(b)})'


def r_rdm(r):
    if r is None:
        return 'None'
    tag = 'None' if r['tag'] is None else f'(Some {N_(r["tag"])})'
    un = 'None' if r['units'] is None else f'(Some ({N_(r["units"][0])}, {N_(r["units"][1])}))'
    return f'(Some (mkRdm {N_(r["rid"])} {tag} 0%nat {HX(bytes.fromhex(r["data"]))} {un}))'


def r_src(S, src, at_uid=None):
    if src[0] == 'utxo':
        return f'(SrcUtxo {r_utxo(S, src[1])})'
    if src[0] == 'script':
        return f'(SrcScript {r_script(S, src[1])})'
    me = S['utxos'][at_uid]
    pool = [i for i, u in enumerate(S['utxos']) if u['chain'] and u['script_addr'] == me['script_addr'] and u['pay'] == me['pay']]
    return f'(SrcNone {C.clist([r_utxo(S, i) for i in pool])})'


def cert_cbor(c):
    return head(4, 3) + e_int(2) + head(4, 2) + e_int(1 if c['cred_script'] else 0) + e_bytes(bytes.fromhex(c['cred'])) \
        + e_bytes(bytes.fromhex(c['pool']))


def r_op(S, op):
    k = op[0]
    if k == 'input':
        return f'AddInput {r_utxo(S, op[1])}'
    if k == 'sinput':
        d = 'None' if op[3] is None else f'(Some {r_datum(op[3])})'
        return f'AddScriptInput {r_utxo(S, op[1])} {r_src(S, op[2], op[1])} {d} {r_rdm(op[4])}'
    if k in ('mint', 'wdrl', 'cert'):
        c = {'mint': 'AddMintingScript', 'wdrl': 'AddWithdrawalScript', 'cert': 'AddCertificateScript'}[k]
        return f'{c} {r_src(S, op[1])} {r_rdm(op[2])}'
    if k == 'addcert':
        return f'AddCert {HX(cert_cbor(op[1]))}'
    if k == 'outdatum':
        return f'AddOutputDatum{"" if len(op) < 4 or op[3] else "HashOnly"} {r_datum(op[1])}'
    if k == 'coll':
        return f'AddCollateral {r_utxo(S, op[1])}'
    if k == 'refin':
        return f'AddReferenceInput {r_utxo(S, op[1])}'
    raise ValueError(k)


def buffered(S):
    """the evaluator's answers after the builder's buffers: int(x * (1 + buffer)) in Python float arithmetic"""
    B = S['build']
    return {int(rid): (int(m * (1 + B['mem_buf'])), int(s * (1 + B['step_buf']))) for rid, (m, s) in S['eval'].items()}


def oz(x):
    return 'None' if x is None else f'(Some {Z_(x)})'


def r_args(S):
    B = S['build']
    units = C.clist([f'({N_(rid)}, ({N_(m)}, {N_(s)}))' for rid, (m, s) in sorted(buffered(S).items())])
    return (f'(mkArgs {C.clist([HX(bytes.fromhex(p)) for p, _ in S["mint"]])} '
            f'{C.clist([HX(bytes.fromhex(a)) for a, _ in S["wdrl"]])} {N_(S["net"])} [] {units} true '
            f'{Z_(S["last_slot"])} {oz(B["vstart"])} {oz(B["ttl"])} {oz(B["off_start"])} {oz(B["off_ttl"])})')


def stab_entry(S, sid):
    sp = S['scripts'][sid]
    return f'({HX(bytes.fromhex(sp["hex"]))}, {r_script(S, sid)})'


def r_case(S):
    return (f'(mkCase {C.clist([r_script(S, s) for s in S["native"]])} {C.clist([r_op(S, o) for o in S["ops"]])} '
            f'{r_args(S)} {C.clist([r_utxo(S, i) for i in range(len(S["utxos"]))])} '
            f'{C.clist([stab_entry(S, i) for i in range(len(S["scripts"]))])})')


ERR = {'InvalidArgumentException': 'EInvalidArg', 'AssertionError': 'EAssert', 'ValueError': 'EValue',
       'TransactionBuilderException': 'EBuilder'}


def estimation_shifted(R):
    """DOMAIN RESTRICTION (explicit, counted as estimation_tx_with_other_pointers, reported to the coordinator):
    TransactionBuilder._estimate_execution_units builds the transaction it hands to the evaluator with a TEMPORARY builder
    that runs coin selection AGAIN (with collateral and collateral return already set its fee estimate is larger); when
    that adds an input sorting before a script input, the spend pointers of the evaluated transaction differ from the
    builder's own and the answers, keyed 'tag:index', go to the wrong redeemer or to none ('Cannot find execution unit').
    The slice model takes the evaluator's answers per redeemer (a_units) and does not contain the second selection: such
    runs are outside it.  True iff some evaluated transaction carried another set of (tag, index) than the builder's."""
    mine = R.get('ptrs_at_failure') if R.get('stage') == 'build' else \
        sorted([tag, ix] for _, tag, ix, _, _ in R.get('rl') or [])
    if mine is None:
        return False
    uniq = lambda l: sorted(set(map(tuple, l)))
    return any(uniq(seen) != uniq(mine) for seen in R.get('eval_ptrs') or [])


def classify_impl(R):
    """('op', i, e) | ('build', e) | ('outside',) | ('done',) | ('unmodelled', kind)"""
    if R['stage'] == 'ops':
        return ('op', R['op'], ERR[R['err']]) if R['err'] in ERR else ('unmodelled', R['err'])
    if R['stage'] == 'done' and estimation_shifted(R):
        return ('outside',)
    if R['stage'] == 'build':
        msg = R.get('msg', '')
        if estimation_shifted(R):
            return ('outside',)
        if R['err'] == 'ValueError' and 'is not in list' in msg:
            return ('build', 'EValue')
        if R['err'] == 'TransactionBuilderException' and 'Cannot find execution unit' in msg:
            return ('build', 'EBuilder')
        if R['err'] == 'UTxOSelectionException' and 'All UTxO selectors failed' in msg:
            return ('outside_early',)
        return ('outside',)
    return ('done',)


def r_impl(R):
    k = classify_impl(R)
    if k[0] == 'op':
        return f'(IErrOp {C.cnat(k[1])} {k[2]})'
    if k[0] == 'build':
        return f'(IErrBuild {k[1]})'
    if k[0] == 'outside_early':
        return 'IOutsideEarly'
    if k[0] in ('outside', 'unmodelled'):
        return 'IOutside'
    rl = C.clist([f'({N_(rid)}, {N_(tag)}, {C.cnat(ix)}, ({N_(m)}, {N_(s)}))' for rid, tag, ix, m, s in R['rl']])
    return f'(IDone {HX(bytes.fromhex(R["tx"]))} {HX(bytes.fromhex(R["wits_nodup"]))} {rl})'


HEADER = '''From Coq Require Import NArith ZArith String List Bool.
From PyC Require Import Base Cbor Redeemers RedeemersOracle.
Import ListNotations.
Open Scope string_scope.
'''


def render(cases, results):
    defs, items = [], []
    for i, (S, R) in enumerate(zip(cases, results)):
        S = dict(S); S['_names'] = Names(S, i)
        defs.append(S['_names'].defs())
        defs.append(f'Definition c{i} : case := {r_case(S)}.\nDefinition r{i} : implres := {r_impl(R)}.\n')
        items.append(f'({i}%nat, (c{i}, r{i}))')
    body = ''.join(defs) + 'Definition cases : list (nat * (case * implres)) :=\n' + C.clist(items) + '.\n'
    body += 'Definition res := Eval vm_compute in (map (fun c => (fst c, judge (fst (snd c)) (snd (snd c)))) cases).\n'
    body += 'Eval vm_compute in (map fst (filter (fun r => negb (fst (snd r))) res)).\n'
    for sel in ('fst (fst (fst o))', 'snd (fst (fst o))', 'snd (fst o)', 'snd o'):
        body += f'Eval vm_compute in (map fst (filter (fun r => let o := snd (snd r) in N.eqb ({sel}) 1) res)).\n'
    body += 'Eval vm_compute in (map fst (filter (fun r => let o := snd (snd r) in N.eqb (fst (fst (fst o))) 2) res)).\n'
    return body


CLAUSES = ['pointers', 'scripts', 'datums', 'validity']


def check_hashes(S, R):
    """harness-side hashes (hashlib) against pycardano's script_hash"""
    mine = [script_hash(s).hex() for s in S['scripts']]
    if R.get('script_hashes') is not None and R['script_hashes'] != mine:
        raise RuntimeError(f'script hash disagreement between harness and pycardano: {mine} vs {R["script_hashes"]}')


def evaluate(cases, results, shard=40, pid=PID):
    """-> (mismatch set, {index: [failing clauses]}, undecided set, compile errors)"""
    mism, ofail, undec, errs = set(), {}, set(), []
    good = []
    for i, (S, R) in enumerate(zip(cases, results)):
        if 'driver_error' in R:
            mism.add(i); ofail[i] = ['driver']
            continue
        check_hashes(S, R)
        if classify_impl(R)[0] == 'unmodelled':
            mism.add(i)
        good.append((i, S, R))
        if S.get('phase2') and R.get('tx2'):
            # the second build of the same builder: judged by the decision procedure only (index tagged as derived)
            S2 = dict(S, mint=S['phase2']['mint'], native=S['phase2']['native'])
            R2 = dict(R, tx=R['tx2'], wits_nodup=R['wits_nodup2'], rl=R['rl2'])
            good.append((('second', i), S2, R2))
    shards, maps = [], []
    for k in range(0, len(good), shard):
        part = good[k:k + shard]
        shards.append(render([s for _, s, _ in part], [r for _, _, r in part]))
        maps.append([i for i, _, _ in part])
    for (ok, lists, log), mp in zip(C.run_cases(pid, shards, HEADER), maps):
        if not ok or len(lists) != 6:
            errs.append(log[-2500:])
            continue
        mism.update(mp[j] for j in lists[0] if not isinstance(mp[j], tuple))
        for cl, l in zip(CLAUSES, lists[1:5]):
            for j in l:
                if isinstance(mp[j], tuple):
                    ofail.setdefault(mp[j][1], []).append(cl + ' (second build of the same builder)')
                else:
                    ofail.setdefault(mp[j], []).append(cl)
        undec.update(mp[j] for j in lists[5] if not isinstance(mp[j], tuple))
    return mism, ofail, undec, errs


def region(S, R, clauses):
    if 'driver' in clauses:
        return 'driver-exception'
    return 'c11-' + '+'.join(clauses)


def twin_ref_and_direct(S):
    """some script supplied through a reference UTxO shares its bytes, not its language, with a script handed over directly"""
    ref, direct = [], []
    for o in S['ops']:
        if o[0] not in ('sinput', 'mint', 'wdrl', 'cert'):
            continue
        src = o[2] if o[0] == 'sinput' else o[1]
        if src[0] == 'utxo' and S['utxos'][src[1]]['script'] is not None:
            ref.append(S['scripts'][S['utxos'][src[1]]['script']])
        elif src[0] == 'script':
            direct.append(S['scripts'][src[1]])
    return any(a['hex'] == b['hex'] and a['lang'] != b['lang'] for a in ref for b in direct)


def falsy_supplied(S):
    """a datum that is a falsy Python object is handed to add_script_input for a hash-locked input"""
    fh = {f.hex() for f in FALSY}
    return any(o[0] == 'sinput' and o[3] in fh and len(o) > 5 and o[5] == 'prim'
               and (S['utxos'][o[1]]['datum'] or [None])[0] == 'hash' for o in S['ops'])


def n_redeemers(R):
    return len(R.get('rl') or [])


def corpus_cases():
    """directed regression scenarios (corpus/C11.json): the same bytes under two languages with one side on a reference
    UTxO for each kind of call, falsy datum objects for hash-locked inputs and for outputs"""
    p = os.path.join(C.VERIF, 'corpus', 'C11.json')
    return json.load(open(p)) if os.path.exists(p) else []


def correspond(ctx, n=None):
    corpus = corpus_cases() if n is None else []
    n = n or ctx.n(300, 12000)
    cases = corpus + [A.lookalike_ids(ctx.rng, gen_scenario(ctx.rng)) for _ in range(n - len(corpus))]
    results = C.run_impl('plutusbuild_driver', {'cases': cases})
    mism, ofail, undec, errs = evaluate(cases, results)
    if errs:
        raise RuntimeError('cases file failed to compile: ' + errs[0])
    stages, outside_msgs, hist = {}, {}, {}
    for S, R in zip(cases, results):
        k = classify_impl(R) if 'driver_error' not in R else ('driver_error',)
        key = k[0] + (':' + str(k[-1]) if k[0] in ('op', 'build', 'unmodelled') else '')
        stages[key] = stages.get(key, 0) + 1
        if k[0] == 'outside':
            m = 'execution units estimated on a transaction with other redeemer pointers (second coin selection)' \
                if estimation_shifted(R) else R['err'] + ': ' + R.get('msg', '')[:60]
            outside_msgs[m] = outside_msgs.get(m, 0) + 1
        for op in S['ops']:
            hist[op[0]] = hist.get(op[0], 0) + 1
    built = [i for i, R in enumerate(results) if R.get('stage') == 'done' and not estimation_shifted(R)]
    if len(built) < 0.5 * len(cases):
        raise RuntimeError(f'only {len(built)} of {len(cases)} scenarios were built: generator or driver problem; {outside_msgs}')
    nontriv = {C.canon_hash(cases[i]) for i in built if n_redeemers(results[i]) >= 1}
    shape = dict(spend_ge2=0, mint_ge2=0, reward=0, cert=0, ref_script=0, coin_selected=0, redeemer_map=0, evaluated=0,
                 same_bytes_other_language=0, same_bytes_ref_and_direct=0, prim_datums=0, falsy_datum_objects=0,
                 falsy_datum_for_hash_locked_input=0)
    for i in built:
        rl = results[i]['rl']
        shape['spend_ge2'] += sum(1 for r in rl if r[1] == 0) >= 2
        shape['mint_ge2'] += sum(1 for r in rl if r[1] == 1) >= 2
        shape['reward'] += any(r[1] == 3 for r in rl)
        shape['cert'] += any(r[1] == 2 for r in rl)
        shape['ref_script'] += any(o[0] != 'input' and isinstance(o[1 if o[0] != 'sinput' else 2], list)
                                   and o[1 if o[0] != 'sinput' else 2][0] == 'utxo' for o in cases[i]['ops']
                                   if o[0] in ('sinput', 'mint', 'wdrl', 'cert'))
        shape['coin_selected'] += results[i]['n_inputs'] > len({o[1] for o in cases[i]['ops'] if o[0] in ('input', 'sinput')})
        shape['redeemer_map'] += bool(cases[i]['build']['use_map'])
        shape['evaluated'] += results[i]['evals'] > 0
        sc = cases[i]['scripts']
        shape['same_bytes_other_language'] += any(a['hex'] == b['hex'] and a['lang'] != b['lang'] for a in sc for b in sc)
        shape['same_bytes_ref_and_direct'] += twin_ref_and_direct(cases[i])
        shape['prim_datums'] += results[i]['prim'][0] > 0
        shape['falsy_datum_objects'] += results[i]['prim'][1] > 0
        shape['falsy_datum_for_hash_locked_input'] += falsy_supplied(cases[i])

    def pack(i, reg):
        return {'input': cases[i], 'impl': {k: v for k, v in results[i].items() if k != 'tb'}, 'region': reg}
    fails = [pack(i, region(cases[i], results[i], cl)) for i, cl in sorted(ofail.items())]
    known_hits = {}
    for f in fails:
        if f['region'] in KNOWN_REGIONS:
            known_hits[f['region']] = known_hits.get(f['region'], 0) + 1
    return dict(
        evaluations=len(cases), distinct_nontrivial=len(nontriv),
        rule='random Plutus builder scenarios (0-4 script inputs with script in witness / on a reference UTxO / on the spent '
             'UTxO / found through the context, datum by hash / inline / none, 0-3 minting policies, 0-2 script withdrawals '
             '(+ key accounts), certificate scripts, V1/V2/V3/native/raw-bytes scripts, the same program bytes under several '
             'languages (one through a reference UTxO, one handed over), datums handed over as RawCBOR or as plain Python '
             'values incl. the falsy ones 0 / b"" / {} / empty lists, key-locked inputs and coin-selected '
             'inputs with tx ids before/between/after, shared tx ids with indices 2/10/100, random call order, redeemer map/list, '
             'units supplied/evaluated with buffers, deliberate misuse); non-trivial = transaction built with >= 1 redeemer; distinct by hash',
        samples=[cases[len(corpus)]], corpus_cases=len(corpus),
        stage_histogram=stages, outside_slice=outside_msgs, op_histogram=hist, built=len(built), built_shapes=shape,
        reward_pointer_undecided_mixed_accounts=len(undec),
        estimation_tx_with_other_pointers=sum(1 for R in results if 'driver_error' not in R and estimation_shifted(R)),
        known_region_hits=known_hits,
        compared='error kind and failing call; body inputs (order), reference inputs (set), certificates, validity interval, the '
                 'builder\'s redeemer objects (id, tag, index, units) and the shipped redeemers, the four script buckets of '
                 'build_and_sign and of build_witness_set(False), datum list; oracle on the decoded transaction bytes',
        mismatches=[pack(i, 'model') for i in sorted(mism)[:20]],
        oracle_fail=[f for f in fails if f['region'] not in KNOWN_REGIONS][:50],
    )


def search(ctx, mism):
    ctx.rng.seed(f'search-{ctx.seed}')
    r = correspond(ctx, 1500 if ctx.quick else 20000)
    return r['oracle_fail'][0] if r['oracle_fail'] else None


def replay(ctx, rep):
    case = rep['case']['input']
    res = C.run_impl('plutusbuild_driver', {'cases': [case]}, nshards=1)
    mism, ofail, undec, errs = evaluate([case], res)
    print('input:', json.dumps(case))
    print('implementation:', json.dumps({k: v for k, v in res[0].items() if k != 'tb'}))
    print('model agrees:', 0 not in mism, ' failing clauses:', ofail.get(0, []), ' compile errors:', errs[:1])
    return 1 if ofail else 0
