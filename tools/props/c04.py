"""C04 — map-like values encode canonically, independent of construction history."""
import json
from lib import common as C
from props import valuegen as G

PID = 'C04'
TARGETS = ['props/C04.vo', 'theories/ValueOracle.vo']
LEVEL = 'proof'

MANIFEST = dict(
    text='Theorems (Coq, unbounded): the emitted map is a function of the multiset of entries and strictly ascending in '
         '(len, bytes) of the encoded key (C04_dict_canonical); the bytes of a multi-asset/Value depend only on content '
         '(C04_bundle_canonical, C04_value_canonical, C04_history over arbitrary operation histories); no zero/empty entries; '
         'bare integer without assets. Model tied to the code by correspondence (model bytes = to_cbor bytes) and the property '
         'oracle (Coq decoder + canonical-form check) is evaluated on the implementation bytes.',
    note='Trusted: Coq kernel+vm_compute; hand model Value.v/Cbor.v validated by differential runs; generator; driver. No axioms.',
    technique='Coq proof (sorting uniqueness, permutation, content abstraction) + model/implementation correspondence', ref='C04')
TRUSTED = [
    'Coq 8.16.1 kernel incl. vm_compute (no native_compute); no axioms (see Print Assumptions lines)',
    'hand model coq/theories/Value.v (operators, ksort = DictCBORSerializable.to_shallow_primitive, value_prim) and '
    'Cbor.v (encoder; round trip proved in CborProofs.v), tied by correspondence: model bytes = implementation bytes',
    'the oracle decodes the IMPLEMENTATION bytes with the proved Coq decoder and checks canonical form + content',
    'tools/impl/value_driver.py, tools/props/valuegen.py',
]
ASSUMPTIONS = ['dict keys are unique (Python dict)', 'metadata: only the label map (first layer) is claimed canonical, as in the property text']

LABELS = [0, 1, 23, 24, 255, 256, 674, 65535, 65536, 2**32 - 1, 2**32, 2**63, 2**64 - 1]
ADDRS = [bytes([h]) + bytes([i]) * 28 for h in (0xe0, 0xe1, 0xf0, 0xf1) for i in (0, 1, 0xff)]


def gen_cases(ctx, n):
    cases = []
    for i in range(n):
        r = ctx.rng.random()
        if r < 0.55:
            cases.append({'ops': G.history_program(ctx.rng)})
        elif r < 0.72:
            cases.append({'ops': G.rand_program(ctx.rng, ctx.rng.randint(3, 10))})
        elif r < 0.76:
            cases.append({'ops': G.cancel_program(ctx.rng)})
        elif r < 0.8:
            cases.append({'ops': G.shared_program(ctx.rng), 'share': True})
        elif r < 0.84:
            ks = ctx.rng.sample(LABELS, ctx.rng.randint(0, 6))
            # label values: integers or nested containers (a list of integers); the nested ones are what a deep copy must not share
            cases.append({'dict': 'metadata', 'entries': [[k, ctx.rng.choice([0, 1, 24, 2**32, -1, -2**63, [1, 2], [], [24, [7]]])] for k in ks]})
        elif r < 0.88:
            ks = ctx.rng.sample(ADDRS, ctx.rng.randint(0, 6))
            cases.append({'dict': ctx.rng.choice(['withdrawals', 'treasury']),
                          'entries': [[k.hex(), ctx.rng.choice([0, 1, 1000000, 2**32, 2**64 - 1])] for k in ks]})
        elif r < 0.93:
            # redeemer map: keys [tag, index] — array keys whose encoded lengths differ (index 23 / 24 / 256 / 65536)
            keys = ctx.rng.sample([(t, i) for t in range(6) for i in IXS], ctx.rng.randint(0, 6))
            cases.append({'dict': 'redeemers',
                          'entries': [[[t, i], [ctx.rng.choice([0, 5, 24]), ctx.rng.choice([0, 1, 2**32]), ctx.rng.choice([0, 7, 2**40])]]
                                      for t, i in keys]})
        elif r < 0.97:
            # vote map: keys [tx id, index]
            txs = [bytes([b]) * 32 for b in (0x11, 0x22, 0xee)]
            keys = ctx.rng.sample([(t.hex(), i) for t in txs for i in IXS if i < 65536], ctx.rng.randint(0, 6))
            cases.append({'dict': 'votes', 'entries': [[[t, i], ctx.rng.randint(0, 2)] for t, i in keys]})
        else:
            hs = [bytes([b]) * 28 for b in (0x01, 0x7f, 0xf0)]
            keys = ctx.rng.sample([(c, h.hex()) for c in range(5) for h in hs], ctx.rng.randint(0, 6))
            cases.append({'dict': 'voters', 'entries': [[[c, h], ctx.rng.randint(0, 2)] for c, h in keys]})
    return cases


IXS = [0, 1, 23, 24, 25, 255, 256, 65535, 65536]


def dict_kvs(c):
    """entries of a dict case as Coq (key primitive, value primitive) literals"""
    k = c['dict']
    if k == 'metadata':
        def md(v):
            return f'cint {G.cz(v)}' if isinstance(v, int) else 'CA ' + G.clist([md(x) for x in v])
        return [G.cpair(f'cint {G.cz(a)}', md(v)) for a, v in c['entries']]
    if k in ('withdrawals', 'treasury'):
        return [G.cpair(f'CB {G.chx(bytes.fromhex(a))}', f'cint {G.cz(v)}') for a, v in c['entries']]
    if k == 'redeemers':
        return [G.cpair(f'CA [cint {G.cz(t)}; cint {G.cz(i)}]', f'CA [cint {G.cz(d)}; CA [cint {G.cz(m)}; cint {G.cz(st)}]]')
                for (t, i), (d, m, st) in c['entries']]
    if k == 'votes':
        return [G.cpair(f'CA [CB {G.chx(bytes.fromhex(t))}; cint {G.cz(i)}]', f'CA [cint {G.cz(v)}; CS 22%N]') for (t, i), v in c['entries']]
    if k == 'voters':
        return [G.cpair(f'CA [cint {G.cz(cd)}; CB {G.chx(bytes.fromhex(h))}]',
                        f'CM [(CA [CB {G.chx(bytes(32))}; cint 0%Z], CA [cint {G.cz(v)}; CS 22%N])]') for (cd, h), v in c['entries']]
    raise ValueError(k)


def render(part):
    progs, dicts = [], []
    for i, c, r in part:
        if 'dict' in c:
            kvs = G.clist(dict_kvs(c))
            dicts.append(f'({i}%nat, ({kvs}, {G.clist([G.chx(bytes.fromhex(r[x])) for x in ("cbor", "cbor2", "rt", "cbor3", "cbor4", "cbor5")])}))')
        else:
            cb = G.clist([G.chx(bytes.fromhex(x)) for x in r['cbor']])
            rt = 'None'
            if r['rt'] and not str(r['rt'][0]).startswith('!'):
                rt = f'(Some {G.cpair(G.cz(r["rt"][0]), G.r_ma(r["rt"][1]))})'
            progs.append(f'({i}%nat, ({G.r_ops(c["ops"])}, {G.r_snap(r["snap"])}, {cb}, {rt}))')
    body = 'Definition progs : list (nat * (list hop * list (Z * masset) * list bytes * option (Z * masset))) :=\n' + G.clist(progs) + '.\n'
    body += 'Definition dicts : list (nat * (list (cbor * cbor) * list bytes)) :=\n' + G.clist(dicts) + '.\n'
    body += '''Definition rt_ok (ops : list hop) (rt : option (Z * masset)) : bool :=
  match rt with None => true | Some r =>
    match rev (fst (c05_model ops)) with
    | v :: _ => let m := value_roundtrip (mkValue (fst v) (snd v)) in (fst m =? fst r)%Z && masset_same (snd m) (snd r)
    | [] => false end end.
Eval vm_compute in (app (map fst (filter (fun c => match snd c with (ops, snap, cb, rt) => negb (c04_corr ops cb && rt_ok ops rt) end) progs))
                    (map fst (filter (fun c => negb (forallb (fun b => bytes_eqb (enc (dict_prim (fst (snd c)))) b) (snd (snd c)))) dicts))).
Eval vm_compute in (app (map fst (filter (fun c => match snd c with (ops, snap, cb, rt) => negb (c04_oracle snap cb) end) progs))
                    (map fst (filter (fun c => negb (forallb (dict_bytes_ok (fst (snd c))) (snd (snd c)))) dicts))).
'''
    return body


def evaluate(cases, results, shard=150):
    mism, ofail, errs = set(), set(), []
    good = []
    for i, (c, r) in enumerate(zip(cases, results)):
        if 'driver_error' in r or ('cbor' in r and isinstance(r['cbor'], list) and any(x.startswith('!') for x in r['cbor'])):
            mism.add(i); ofail.add(i)
        elif 'ops' in c and not r.get('ser_pure', True):
            ofail.add(i)                      # serialization modified an operand
        else:
            good.append((i, c, r))
    shards, maps = [], []
    for k in range(0, len(good), shard):
        part = good[k:k + shard]
        shards.append(render(part)); maps.append(None)
    for (ok, lists, log) in C.run_cases(PID, shards, G.HEADER):
        if not ok or len(lists) != 2:
            errs.append(log[-1500:]); continue
        mism.update(lists[0]); ofail.update(lists[1])
    return mism, ofail, errs


def nontrivial(c):
    if 'dict' in c:
        return len(c['entries']) >= 2
    return sum(1 for o in c['ops'] if o[0] in ('new', 'add', 'sub', 'setitem')) >= 3


def correspond(ctx, n=None):
    n = n or ctx.n(1000, 30000)
    cases = gen_cases(ctx, n)
    results = C.run_impl('value_driver', {'cases': cases})
    mism, ofail, errs = evaluate(cases, results)
    if errs:
        raise RuntimeError('cases file failed to compile: ' + errs[0])
    kinds = {}
    for c in cases:
        k = c.get('dict', 'program')
        kinds[k] = kinds.get(k, 0) + 1
    nvals = sum(len(r['cbor']) for c, r in zip(cases, results) if 'ops' in c and 'cbor' in r)
    bare = sum(1 for c, r in zip(cases, results) if 'ops' in c and 'cbor' in r for x in r['cbor'] if x[:1] in '0123')
    def pack(i):
        return {'input': cases[i], 'impl': results[i], 'region': 'exception' if 'driver_error' in results[i] else 'bytes'}
    return dict(
        evaluations=len(cases), distinct_nontrivial=len({C.canon_hash(c) for c in cases if nontrivial(c)}),
        rule='55% history programs (one target content over <=6 policies x <=6 names, names of length 0..32, reached by '
             '3 histories: direct literal in random insertion order; sum of two random summands with cancelling detour; '
             'item assignments with zero entries left behind), 25% random value programs, 20% map-like classes (Metadata, Withdrawals, '
             'TreasuryWithdrawal, RedeemerMap keyed by [tag, index], vote maps keyed by [tx id, index], VotingProcedures keyed by '
             '[code, credential]; key encodings of different lengths) built in two insertion orders + decode/encode. Every variable of every program is serialized. '
             'non-trivial = >=3 constructing ops or >=2 dict entries; distinct by hash',
        samples=[cases[0], next((c for c in cases if 'dict' in c), cases[-1])],
        case_kinds=kinds, values_serialized=nvals, bare_int_values=bare,
        traces_validated_against_impl=len(cases),
        compared='model value_cbor = implementation to_cbor for every variable; decode(encode) of the last variable; oracle: '
                 'implementation bytes decode (Coq decoder) to a canonical value with exactly the snapshot content, re-encode '
                 'to the same bytes (shortest heads, definite), keys strictly ascending length-first, no zero/empty, bare int iff '
                 'no assets; any two variables with equal content have equal bytes',
        mismatches=[pack(i) for i in sorted(mism)[:20]],
        oracle_fail=[pack(i) for i in sorted(ofail)[:50]],
    )


def search(ctx, mism):
    ctx.rng.seed(f'search-{ctx.seed}')
    r = correspond(ctx, 5000 if ctx.quick else 50000)
    return r['oracle_fail'][0] if r['oracle_fail'] else None


def replay(ctx, rep):
    case = rep['case']['input']
    res = C.run_impl('value_driver', {'cases': [case]}, nshards=1)
    mism, ofail, errs = evaluate([case], res)
    print('input:', json.dumps(case)); print('implementation:', json.dumps(res[0]))
    print('model agrees:', 0 not in mism, ' property oracle holds:', 0 not in ofail)
    return 1 if ofail else 0
