"""Schema JSON (tools/translate/schema.py) -> coq/gen/SchemaGen.v, and rendering of value trees."""
import json, os, subprocess
from lib import common as C
from lib.common import cz, cn, chx, clist, cpair, cbool, cstr

# Custom (opaque) classes: acceptance shape of their from_primitive (hand model; tied by correspondence).
OPAQUE_SHAPES = {
    'Address': 'bytes', 'PointerAddress': 'bytes', 'TransactionOutput': 'output', 'AuxiliaryData': 'auxdata',
    'AlonzoMetadata': 'tag259', 'RawPlutusData': 'any', '_ScriptRef': 'tag', 'PoolId': 'bytes',
    'Asset': 'map', 'MultiAsset': 'map', 'Value': 'value', 'CostModels': 'never',
    'StakeCredential': 'list', 'DRepCredential': 'list', 'CommitteeColdCredential': 'list',
    'DRep': 'list', 'GovActionId': 'list', 'VotingProcedure': 'list', 'Voter': 'list',
    'VerificationKeyWitness': 'list', 'PoolRegistration': 'list', 'SingleHostAddr': 'list', 'SingleHostName': 'list',
    'MultiHostName': 'list', 'NativeScript': 'list', 'ScriptPubkey': 'list', 'ScriptAll': 'list', 'ScriptAny': 'list',
    'ScriptNofK': 'list', 'InvalidBefore': 'list', 'InvalidHereAfter': 'list', 'Redeemer': 'list', 'RedeemerKey': 'list',
    'RedeemerValue': 'list', '_Script': 'array', '_DatumOption': 'array', 'PlutusData': 'tag', 'Unit': 'tag',
}
CODEC_OVERRIDES = ('to_primitive', 'to_shallow_primitive', 'from_primitive')


def load_schema(repo=None):
    env = C.impl_env()
    if repo:
        env['PYTHONPATH'] = repo
    rc, out, err, _ = C.sh([C.IMPL_PY, os.path.join(C.VERIF, 'tools', 'translate', 'schema.py')], env=env, timeout=120)
    if rc != 0:
        raise RuntimeError('T1 schema translator failed: ' + err[-800:])
    return json.loads(out)


def is_opaque(c):
    return c['kind'] in ('key', 'other') or any(m in c['custom'] for m in CODEC_OVERRIDES) and c['kind'] != 'cborenum'


def r_ty(t):
    k = t[0]
    if k in ('any', 'int', 'bytes', 'str', 'bool', 'none', 'frac'):
        return {'any': 'TAny', 'int': 'TInt', 'bytes': 'TBytes', 'str': 'TStr', 'bool': 'TBool', 'none': 'TNone', 'frac': 'TFrac'}[k]
    if k == 'cls':
        return f'(TCls {cstr(t[1])})'
    if k == 'list':
        return f'(TList {r_ty(t[1])})'
    if k == 'dict':
        return f'(TDictT {r_ty(t[1])} {r_ty(t[2])})'
    if k == 'set':
        return f'(TSet {cbool(t[1])} {r_ty(t[2])})'
    if k == 'union':
        return f'(TUnion {clist([r_ty(a) for a in t[1]])})'
    if k == 'tuple':
        return f'(TTuple {clist([r_ty(a) for a in t[1]])})'
    if k == 'pybytes':
        return 'TBytes'                      # PlutusV1Script etc.: bytes subclasses restored with t(v)
    if k == 'unknown':
        return f'(TUnknown {cstr(t[1])})'
    if k in ('enum', 'indef', 'bytestring', 'rawcbor', 'cbortag', 'classvar'):
        return f'(TUnknown {cstr(k)})'
    raise ValueError('T1: type ' + repr(t))


def r_key(k):
    if k is None:
        return 'None'
    if isinstance(k, int):
        return f'(Some (cint {cz(k)}))'
    return f'(Some (CT {chx(k.encode())}))'


def r_field(f, hooks):
    const = 'None'
    if not f['init']:
        if f['default'][0] == 'const' and isinstance(f['default'][1], int) and not isinstance(f['default'][1], bool):
            const = f'(Some {cz(f["default"][1])})'
        else:
            raise ValueError(f'T1: init=False field {f["name"]} without integer constant')
    if f['default'][0] == 'required':
        dflt = 'None'
    elif f['default'] == ['const', None]:
        dflt = '(Some 0%Z)'
    else:
        dflt = '(Some 1%Z)'
    hook = f'(Some {cstr(hooks[f["name"]])})' if f['hook'] else 'None'
    return (f'(mkField {cstr(f["name"])} {r_ty(f["ty"])} {cbool(f["optional"])} {r_key(f["key"])} {const} {hook} {dflt})')


# object hooks are closures the translator cannot read structurally: list_hook(<cls>) per field name (checked by correspondence)
HOOKS = {'outputs': 'TransactionOutput', 'native_scripts': 'NativeScript', 'plutus_data': 'RawPlutusData'}


def r_class(c):
    if is_opaque(c):
        shape = OPAQUE_SHAPES.get(c['name'])
        if shape is None:
            if c['kind'] == 'key':
                shape = 'bytes'
            else:
                raise ValueError(f'T1: custom class {c["name"]} has no acceptance shape in the hand model')
        code = 'None'
        for f in c.get('fields', []):
            if f['name'] == '_CODE' and not f['init'] and f['default'][0] == 'const' and isinstance(f['default'][1], int):
                code = f'(Some {cz(f["default"][1])})'
        return f'KOpaque {cstr(shape)} {code}'
    k = c['kind']
    if k == 'cbytes':
        return f'KBytes {cn(c["min"])} {cn(c["max"])}'
    if k == 'cborenum':
        return f'KEnum {clist([cz(v) for v in c["values"].values()])}'
    if k == 'dict':
        return f'KDict {r_ty(c["key_ty"])} {r_ty(c["val_ty"])}'
    fs = c['fields']
    if k == 'coded':
        code = [f for f in fs if f['name'] == '_CODE']
        if len(code) != 1 or code[0]['init'] or code[0]['default'][0] != 'const':
            raise ValueError(f'T1: coded class {c["name"]} without constant _CODE')
        rest = [f for f in fs if f['name'] != '_CODE']
        if fs[0]['name'] != '_CODE':
            raise ValueError(f'T1: _CODE is not the first field of {c["name"]}')
        return f'KCoded {cz(code[0]["default"][1])} {clist([r_field(f, HOOKS) for f in rest])}'
    if k == 'array':
        return f'KArray {clist([r_field(f, HOOKS) for f in fs])}'
    if k == 'map':
        return f'KMap {clist([r_field(f, HOOKS) for f in fs])}'
    raise ValueError('T1: class kind ' + k)


# ---------------------------------------------------------------- encode-side tables (C02)
ENC_OVERRIDES = ('to_primitive', 'to_shallow_primitive')


def is_enc_opaque(c):
    return c['kind'] in ('key', 'other') or (any(m in c['custom'] for m in ENC_OVERRIDES) and c['kind'] != 'cborenum')


def r_field_enc(c, f):
    """encode side: an init=False field is a constant only if nothing in __post_init__/__init__ can set it to another value;
    otherwise it is COMPUTED by the constructor and the table keeps it as an ordinary positional field"""
    if f['init']:
        return r_field(f, HOOKS)
    assigned = c.get('self_assign', {}).get(f['name'], [])
    d = f['default']
    # public init=False attributes (Redeemer.tag / .index) are set by callers after construction: computed
    if f['name'].startswith('_') and d[0] == 'const' and isinstance(d[1], int) and not isinstance(d[1], bool) \
            and all(a == d[1] for a in assigned):
        return r_field(f, HOOKS)
    g = dict(f); g['init'] = True
    return r_field(g, HOOKS)


def r_class_enc(c):
    if is_enc_opaque(c):
        return 'KOpaque "enc" None'
    k = c['kind']
    if k in ('cbytes', 'cborenum', 'dict'):
        return r_class(dict(c, custom={}))
    fs = c['fields']
    if k == 'coded':
        code = [f for f in fs if f['name'] == '_CODE']
        if len(code) != 1 or code[0]['init'] or code[0]['default'][0] != 'const' or fs[0]['name'] != '_CODE' \
                or any(a != code[0]['default'][1] for a in c.get('self_assign', {}).get('_CODE', [])):
            raise ValueError(f'T1: coded class {c["name"]} without constant leading _CODE')
        return f'KCoded {cz(code[0]["default"][1])} {clist([r_field_enc(c, f) for f in fs if f["name"] != "_CODE"])}'
    if k == 'array':
        return f'KArray {clist([r_field_enc(c, f) for f in fs])}'
    if k == 'map':
        return f'KMap {clist([r_field_enc(c, f) for f in fs])}'
    raise ValueError('T1: class kind ' + k)


def schema_v(sch):
    lines = ['(* GENERATED by tools/props/codecgen.py from the working tree of the repository. Do not edit. *)',
             'From Coq Require Import ZArith NArith String List.', 'From PyC Require Import Base Cbor Value Codec.',
             'Import ListNotations.', 'Open Scope string_scope.', '', 'Definition schema : schema := [']
    items = []
    for name in sorted(sch['classes']):
        items.append(f'  ({cstr(name)}, {r_class(sch["classes"][name])})')
    lines.append(';\n'.join(items))
    lines.append('].')
    lines.append('')
    # fingerprints of hand-modelled code: framework functions and the codec overrides of custom classes
    fps = [(k, v) for k, v in sorted(sch['framework'].items())]
    for name in sorted(sch['classes']):
        c = sch['classes'][name]
        for m in sorted(c['custom']):
            if m in CODEC_OVERRIDES or m in ('__post_init__', 'validate'):
                fps.append((f'{name}.{m}', c['custom'][m]))
    lines.append('Definition fingerprints : list (string * string) := [')
    lines.append(';\n'.join(f'  ({cstr(k)}, {cstr(v)})' for k, v in fps))
    lines.append('].')
    lines.append('(* encode-side tables: a class is opaque here only if it overrides to_primitive / to_shallow_primitive *)')
    lines.append('Definition enc_schema : Codec.schema := [')
    enc_items = [f'  ({cstr(name)}, {r_class_enc(sch["classes"][name])})' for name in sorted(sch['classes'])]
    # the dataclass tables of classes that override to_primitive / to_shallow_primitive: what super().to_primitive() walks
    for name in sorted(sch['classes']):
        c = sch['classes'][name]
        if is_enc_opaque(c) and c['kind'] in ('array', 'map', 'coded') and 'fields' in c:
            enc_items.append(f'  ({cstr(name + "!super")}, {r_class_enc(dict(c, custom={}))})')
    lines.append(';\n'.join(enc_items))
    lines.append('].')
    lines.append('Definition enum_values : list (string * list (string * Z)) := [')
    lines.append(';\n'.join(f'  ({cstr(e)}, {clist([cpair(cstr(k), cz(v)) for k, v in sorted(vals.items()) if isinstance(v, int)])})'
                            for e, vals in sorted(list(sch['enums'].items()) +
                                                  [(n, c['values']) for n, c in sch['classes'].items() if c['kind'] == 'cborenum'])))
    lines.append('].')
    lines.append('Definition union_tables : list (string * list string) := [')
    lines.append(';\n'.join(f'  ({cstr(k)}, {clist([cstr(x) for x in v])})' for k, v in sorted(sch['unions'].items())))
    lines.append('].')
    return '\n'.join(lines) + '\n'


# ---------------------------------------------------------------- value trees
def r_cbor_hex(h):
    """a primitive given as CBOR bytes: decoded inside Coq"""
    return f'(prim_of {chx(bytes.fromhex(h))})'


def r_pv(v):
    k = v[0]
    if k == 'int':
        return f'(VInt {cz(v[1])})'
    if k == 'bytes':
        return f'(VBytes {chx(bytes.fromhex(v[1]))})'
    if k == 'str':
        return f'(VStr {chx(bytes.fromhex(v[1]))})'
    if k == 'bool':
        return f'(VBool {cbool(v[1])})'
    if k == 'none':
        return 'VNone'
    if k == 'frac':
        return f'(VFrac {cz(v[1])} {cz(v[2])})'
    if k == 'list':
        return f'(VList {clist([r_pv(x) for x in v[1]])})'
    if k == 'set':
        return f'(VSet {cbool(v[1])} {clist([r_pv(x) for x in v[2]])})'
    if k == 'mapt':
        return f'(VMapT {clist([cpair(r_pv(a), r_pv(b)) for a, b in v[1]])})'
    if k == 'obj':
        return f'(VObj {cstr(v[1])} {clist([r_pv(x) for x in v[2]])})'
    if k == 'dict':
        return f'(VDict {cstr(v[1])} {clist([cpair(r_pv(a), r_pv(b)) for a, b in v[2]])})'
    if k == 'cb':
        return f'(VCB {cstr(v[1])} {chx(bytes.fromhex(v[2]))})'
    if k == 'enum':
        return f'(VEnum {cstr(v[1])} {cz(v[2])})'
    if k == 'opq':
        return f'(VOpq {cstr(v[1])} {r_cbor_hex(v[2])})'
    if k == 'any':
        return f'(VAny {r_cbor_hex(v[1])})'
    raise ValueError(k)
