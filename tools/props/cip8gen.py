"""C19 harness helpers: a small CBOR codec/walker (independent of cbor2/cose), COSE_Sign1 region
location, tamper-variant construction, reference crypto (pure-Python RFC 8032 Ed25519 + hashlib
BLAKE2b), prediction of the Ed25519 questions the Coq model will ask, and Coq literal printing."""
import hashlib, json, os, sys
sys.path.insert(0, os.path.join(os.path.dirname(os.path.abspath(__file__)), '..'))
from refcrypto import ed25519_ref as ED
from lib import common as C

HEADER = '''From Coq Require Import NArith ZArith String List Bool.
From Coq Require Import Init.Byte.
From PyC Require Import Base Cbor Cip8 Cip8Oracle.
Import ListNotations.
Open Scope N_scope.
'''


# ------------------------------------------------------------------ CBOR (harness side)
class T(bytes):
    """text string kept as raw UTF-8 bytes"""


class Simple(int):
    pass


class Pairs(list):
    """map kept as an ordered list of (key, value)"""


class Raw(bytes):
    """pre-encoded item, emitted verbatim"""


def head(m, n):
    if n < 24:
        return bytes([m << 5 | n])
    for ai, w in ((24, 1), (25, 2), (26, 4), (27, 8)):
        if n < 1 << (8 * w):
            return bytes([m << 5 | ai]) + n.to_bytes(w, 'big')
    raise ValueError(n)


def cenc(x):
    if isinstance(x, Raw):
        return bytes(x)
    if isinstance(x, Simple):
        return bytes([0xe0 + int(x)])
    if isinstance(x, bool):
        return b'\xf5' if x else b'\xf4'
    if isinstance(x, int):
        return head(0, x) if x >= 0 else head(1, -1 - x)
    if isinstance(x, T):
        return head(3, len(x)) + bytes(x)
    if isinstance(x, str):
        b = x.encode('utf-8')
        return head(3, len(b)) + b
    if isinstance(x, (bytes, bytearray)):
        return head(2, len(x)) + bytes(x)
    if isinstance(x, Pairs):
        return head(5, len(x)) + b''.join(cenc(k) + cenc(v) for k, v in x)
    if isinstance(x, dict):
        return head(5, len(x)) + b''.join(cenc(k) + cenc(v) for k, v in x.items())
    if isinstance(x, (list, tuple)):
        return head(4, len(x)) + b''.join(cenc(y) for y in x)
    raise TypeError(type(x))


class Malformed(Exception):
    pass


def rd_head(b, i):
    if i >= len(b):
        raise Malformed('eof')
    ib = b[i]; m, ai = ib >> 5, ib & 31
    if ai < 24:
        return m, ai, i + 1
    if ai > 27:
        raise Malformed('ai')
    w = 1 << (ai - 24)
    if i + 1 + w > len(b):
        raise Malformed('eof')
    return m, int.from_bytes(b[i + 1:i + 1 + w], 'big'), i + 1 + w


def cdec(b, i=0):
    """definite-length items only; returns (object, next index)"""
    m, n, j = rd_head(b, i)
    if m == 0:
        return n, j
    if m == 1:
        return -1 - n, j
    if m in (2, 3):
        if j + n > len(b):
            raise Malformed('eof')
        return (bytes(b[j:j + n]) if m == 2 else T(b[j:j + n])), j + n
    if m == 4:
        out = []
        for _ in range(n):
            x, j = cdec(b, j); out.append(x)
        return out, j
    if m == 5:
        out = Pairs()
        for _ in range(n):
            k, j = cdec(b, j); v, j = cdec(b, j); out.append((k, v))
        return out, j
    if m == 7 and b[i] in (0xf4, 0xf5, 0xf6, 0xf7):
        return Simple(b[i] - 0xe0), j
    raise Malformed('unsupported')


def bstr_span(b, i):
    """(content start, content end) of the definite byte string whose head is at i"""
    m, n, j = rd_head(b, i)
    if m != 2 or j + n > len(b):
        raise Malformed('not bstr')
    return j, j + n


def skip(b, i):
    return cdec(b, i)[1]


def regions(sm):
    """content spans of protected header, payload and signature of a COSE_Sign1 array, found with the
    walker above (not with cose / cbor2)"""
    m, n, i = rd_head(sm, 0)
    if m != 4 or n != 4:
        raise Malformed('not array(4)')
    ph = bstr_span(sm, i); i = ph[1]
    i = skip(sm, i)
    pl = bstr_span(sm, i); i = pl[1]
    sg = bstr_span(sm, i); i = sg[1]
    if i != len(sm):
        raise Malformed('trailing')
    return {'phdr': ph, 'payload': pl, 'sig': sg}


def sig_structure(prot, payload):
    return cenc([T(b'Signature1'), prot, b'', payload])


def cose_key(x, **kw):
    return cenc(Pairs([(1, 1), (3, -8), (-1, 6), (-2, x)]))


def H28(b):
    return hashlib.blake2b(b, digest_size=28).digest()


# ------------------------------------------------------------------ bech32 (BIP-173) for text-form addresses
_CH = 'qpzry9x8gf2tvdw0s3jn54khce6mua7l'


def _polymod(values):
    gen = [0x3b6a57b2, 0x26508e6d, 0x1ea119fa, 0x3d4233dd, 0x2a1462b3]
    chk = 1
    for v in values:
        b = chk >> 25
        chk = (chk & 0x1ffffff) << 5 ^ v
        for i in range(5):
            chk ^= gen[i] if ((b >> i) & 1) else 0
    return chk


def bech32_encode(hrp, data):
    acc, bits, out = 0, 0, []
    for v in data:
        acc = (acc << 8) | v; bits += 8
        while bits >= 5:
            bits -= 5; out.append((acc >> bits) & 31)
    if bits:
        out.append((acc << (5 - bits)) & 31)
    ex = [ord(x) >> 5 for x in hrp] + [0] + [ord(x) & 31 for x in hrp]
    pm = _polymod(ex + out + [0] * 6) ^ 1
    chk = [(pm >> 5 * (5 - i)) & 31 for i in range(6)]
    return hrp + '1' + ''.join(_CH[d] for d in out + chk)


# ------------------------------------------------------------------ keys
KINDS = ['pay', 'stake', 'xpay', 'xstake']


def make_key(rng, kind):
    """returns dict(kind, sk hex payload, vk bytes) built without pycardano"""
    if kind in ('pay', 'stake'):
        seed = bytes(rng.getrandbits(8) for _ in range(32))
        return {'kind': kind, 'sk': seed.hex(), 'vk': ED.secret_to_public(seed)}
    kl = bytearray(rng.getrandbits(8) for _ in range(32))
    kl[0] &= 0xf8; kl[31] &= 0x1f; kl[31] |= 0x40           # BIP32-Ed25519 root clamping
    kr = bytes(rng.getrandbits(8) for _ in range(32))
    pub = ED.scalarmult_base_noclamp(bytes(kl))
    cc = bytes(rng.getrandbits(8) for _ in range(32))
    return {'kind': kind, 'sk': (bytes(kl) + kr + pub + cc).hex(), 'vk': pub}


def ref_sign(key, msg):
    sk = bytes.fromhex(key['sk'])
    if key['kind'].startswith('x'):
        return ED.sign_extended(sk[:32], sk[32:64], msg)
    return ED.sign(sk, msg)


def addr_bytes(key, net, vk=None):
    hb = (0xe0 if 'stake' in key['kind'] else 0x60) | net
    return bytes([hb]) + H28(key['vk'] if vk is None else vk)


# ------------------------------------------------------------------ messages
def rand_text(rng, nbytes_max, alphabet='mixed'):
    pools = {
        'ascii': [chr(c) for c in range(32, 127)],
        'mixed': [chr(c) for c in range(32, 127)] + list('äöüßéñ¿ŁŚĄ') + list('жщФ') + list('中文字日本語')
                 + list('\U0001F600\U0001F4A9\U00010348\U0001F9D1') + ['\u0000', '\n', '‍', '￿'],
        'astral': list('\U0001F600\U0001F4A9\U00010348\U0001F9D1\U0010FFFF\U00010000'),
    }[alphabet]
    out = ''
    while True:
        ch = rng.choice(pools)
        if len((out + ch).encode('utf-8')) > nbytes_max:
            return out
        out += ch
        if rng.random() < 1.5 / max(nbytes_max, 1):
            return out


# ------------------------------------------------------------------ model-question prediction
HDR_NAMES = {'RESERVED': 0, 'ALG': 1, 'CRITICAL': 2, 'CONTENT_TYPE': 3, 'KID': 4, 'IV': 5, 'PARTIAL_IV': 6,
             'COUNTER_SIGN': 7, 'COUNTER_SIGN0': 9, 'KID_CONTEXT': 10}


def _norm_key(k):
    if isinstance(k, T):
        try:
            u = bytes(k).decode('ascii').upper()
        except UnicodeDecodeError:
            return k
        return HDR_NAMES.get(u, k)
    return k


def mirror_reenc(prot):
    """What the implementation signs over instead of the received protected bytes: the canonical
    re-serialisation of the parsed header (dict semantics, trailing bytes dropped).  Only used to
    PREDICT the model's Ed25519 question; a wrong prediction is a loud table miss."""
    if not prot:
        return b''
    try:
        if prot[0] == 0xbf:
            i, pairs = 1, Pairs()
            while prot[i] != 0xff:
                k, i = cdec(prot, i); v, i = cdec(prot, i); pairs.append((k, v))
        else:
            pairs, _ = cdec(prot, 0)
    except (Malformed, IndexError):
        return None
    if not isinstance(pairs, Pairs):
        return None
    out = []
    for k, v in pairs:
        k = _norm_key(k)
        if k == 1 and isinstance(v, T) and bytes(v).upper() == b'EDDSA':
            v = -8
        for j, (k2, _) in enumerate(out):
            if type(k2) is type(k) and k2 == k:
                out[j] = (k2, v); break
        else:
            out.append((k, v))
    return cenc(Pairs(out)) if out else b''


def predict_queries(sm, key):
    """[(vk, msg, sig)] candidates for the model's ed_verify question on (sm, key), and [vk] for H28."""
    try:
        arr, _ = cdec(sm, 0)
    except (Malformed, IndexError):
        return [], []
    if not isinstance(arr, list) or isinstance(arr, Pairs) or len(arr) < 4:
        return [], []
    prot, payload, sig = arr[0], arr[2], arr[3]
    if type(prot) is not bytes or type(payload) is not bytes or type(sig) is not bytes:
        return [], []
    prots = [prot]
    mr = mirror_reenc(prot)
    if mr is not None and mr != prot:
        prots.append(mr)
    vks = []
    if key is None:
        for p in prots:
            try:
                pairs = cdec(p, 0)[0] if p and p[0] != 0xbf else None
            except (Malformed, IndexError):
                pairs = None
            if isinstance(pairs, Pairs):
                for k, v in pairs:
                    if _norm_key(k) == 4 and type(v) is bytes and v not in vks:
                        vks.append(v)
    else:
        try:
            pairs = cdec(key, 0)[0]
        except (Malformed, IndexError):
            pairs = None
        if isinstance(pairs, Pairs):
            for k, v in pairs:
                if k == -2 and type(v) is bytes:
                    vks = [v]
    qs = []
    for vk in vks:
        for p in prots:
            qs.append((vk[:32] if len(vk) > 32 else vk, sig_structure(p, payload), sig))
    return qs, vks


# ------------------------------------------------------------------ Coq literals
def chx(b):
    return f'(hx "{bytes(b).hex()}")'


class Lits:
    """Byte-string literals written relative to named base definitions of the cases file (equal, or one bit
    flipped) when possible: keeps the files small; Coq expands `flip NAME off bit` itself."""

    def __init__(self, bases):
        self.bases = [(n, bytes(b), int.from_bytes(b, 'big')) for n, b in bases if len(b) >= 8]

    def hx(self, b):
        b = bytes(b)
        if len(b) >= 8:
            x = None
            for name, base, bi in self.bases:
                if len(base) == len(b):
                    if base == b:
                        return name
                    if x is None:
                        x = int.from_bytes(b, 'big')
                    d = x ^ bi
                    if d & (d - 1) == 0:
                        pos = d.bit_length() - 1
                        return f'(flip {name} {len(b) - 1 - pos // 8} {pos % 8})'
        if len(b) >= 96:                              # long literal sharing a prefix and a suffix with a base
            best = None
            for name, base, _ in self.bases:
                if len(base) < 96:
                    continue
                lim = min(len(b), len(base))
                p = 0
                while p < lim and b[p] == base[p]:
                    p += 1
                q = 0
                while q < lim - p and b[-1 - q] == base[-1 - q]:
                    q += 1
                if p + q >= len(b) // 2 and (best is None or p + q > best[0]):
                    best = (p + q, name, p, len(base) - p - q, b[p:len(b) - q])
            if best:
                return f'(splice {best[1]} {best[2]} {best[3]} {chx(best[4])})'
        return chx(b)

    def opt(self, b):
        return 'None' if b is None else f'(Some {self.hx(b)})'

    def tv(self, entries):
        return '[' + '; '.join(f'({self.hx(vk)}, {self.hx(m)}, {self.hx(s)}, {C.cbool(b)})' for vk, m, s, b in entries) + ']'

    def tf(self, entries):
        return '[' + '; '.join(f'({self.hx(x)}, {self.hx(y)})' for x, y in entries) + ']'

    def ts(self, entries):
        return '[' + '; '.join(f'({self.hx(k)}, {self.hx(m)}, {self.hx(s)})' for k, m, s in entries) + ']'

    def tb(self, entries):
        return '[' + '; '.join(f'({self.hx(x)}, {self.opt(y)})' for x, y in entries) + ']'

    def skey(self, key):
        kind = 'KStake' if 'stake' in key['kind'] else 'KPay'
        return (f'{{| sk_kind := {kind}; sk_ext := {C.cbool(key["kind"].startswith("x"))}; '
                f'sk_payload := {self.hx(bytes.fromhex(key["sk"]))} |}}')

    def out(self, o):
        """driver outcome -> iout literal"""
        if o[0] == 'exc':
            name = o[1]
            if not all(c.isalnum() or c == '_' for c in name):
                name = 'Weird'
            return f'(IExc "{name}")'
        if o[0] == 'ok':
            _, v, msg, hb, pay, stk = o
            if not isinstance(v, bool):
                return 'IOther'
            if stk is None:
                s = 'SNone'
            elif isinstance(stk, str):
                s = f'(SHash {self.hx(bytes.fromhex(stk))})'
            else:
                s = f'(SPtr {stk[0]} {stk[1]} {stk[2]})'
            return (f'(IOk {C.cbool(v)} {self.hx(bytes.fromhex(msg))} {int(hb, 16)} '
                    f'{self.opt(None if pay is None else bytes.fromhex(pay))} {s})')
        return 'IOther'


def r_net(net):
    return 'Mainnet' if net == 1 else 'Testnet'
