"""C18 helpers: generator of Plutus data / typed class descriptions and values, an independent Python
reference encoder (only used to produce the bytes fed to the decode routes; every case re-checks it against
Coq's plutus_ref), and printers of Coq literals for coq/theories/PlutusOracle.v."""
from lib.common import cz, cn, cnat, cbool, cstr, clist, cpair
from lib.common import chx as _chx

# byte-string literals of one case are shared through let-bindings (the same bytes recur on most routes;
# elaborating long string literals dominates the cost of a cases file)
_POOL = None


def chx(b):
    b = bytes(b)
    if _POOL is None or len(b) < 6:
        return _chx(b)
    if b not in _POOL:
        _POOL[b] = f'b{len(_POOL)}_'
    return _POOL[b]

HEADER = '''From Coq Require Import ZArith NArith List String.
From PyC Require Import Base Cbor Plutus PlutusOracle.
Import ListNotations.
Open Scope string_scope.
'''

# ---------------------------------------------------------------- boundary pools
INTS = [0, 1, 23, 24, 255, 256, 65535, 65536, 2**32 - 1, 2**32, 2**63 - 1, 2**63, 2**64 - 1, 2**64, 2**64 + 1, 2**70,
        -1, -24, -25, -256, -257, -65536, -65537, -2**32, -2**32 - 1, -2**63, -2**63 - 1, -2**64, -2**64 - 1, -2**70,
        2**511, -2**511]
HUGE = [2**512 - 1, 2**512, -2**512, -2**512 - 1, 2**520]
BLEN = [0, 1, 2, 28, 31, 32, 33, 63, 64, 65, 127, 128, 129]
IDS = [0, 1, 2, 5, 6, 7, 8, 23, 24, 126, 127, 128, 129, 255, 256, 262, 263, 65535, 65536, 2**32 - 1, 2**32]


def rbytes(rng, n):
    return bytes(rng.randrange(256) for _ in range(n))


def rand_int(rng, huge=0.01):
    r = rng.random()
    if r < huge:
        return rng.choice(HUGE)
    if r < 0.6:
        return rng.choice(INTS)
    if r < 0.8:
        return rng.randint(-30, 300)
    return rng.randint(-2**72, 2**72)


def rand_bs(rng):
    r = rng.random()
    n = rng.choice(BLEN) if r < 0.7 else rng.randint(0, 40)
    return rbytes(rng, n)


def rand_id(rng):
    return rng.choice(IDS) if rng.random() < 0.75 else rng.randint(0, 2**32)


def rand_atom(rng):
    return ['I', rand_int(rng)] if rng.random() < 0.5 else ['B', rand_bs(rng).hex()]


def rand_data(rng, depth, exotic=0.06):
    """recursive data; `exotic` = probability of map keys outside int/bytes and of duplicate keys"""
    r = rng.random()
    if depth <= 0 or r < 0.3:
        return rand_atom(rng)
    if r < 0.55:
        return ['C', rand_id(rng), [rand_data(rng, depth - 1, exotic) for _ in range(rng.choice([0, 1, 1, 2, 3]))]]
    if r < 0.78:
        return ['L', [rand_data(rng, depth - 1, exotic) for _ in range(rng.choice([0, 1, 1, 2, 3]))]]
    kvs, seen = [], set()
    for _ in range(rng.choice([0, 1, 2, 3])):
        e = rng.random()
        if e < exotic / 3:
            k = ['C', rand_id(rng), []]
        elif e < 2 * exotic / 3:
            k = rng.choice([['C', rand_id(rng), [rand_atom(rng)]], ['L', [rand_atom(rng)]], ['L', []]])
        elif e < exotic and kvs:
            k = kvs[0][0]                                   # duplicate key
        else:
            k = rand_atom(rng)
            if repr(k) in seen:
                continue
        seen.add(repr(k))
        kvs.append([k, rand_data(rng, depth - 1, exotic)])
    return ['M', kvs]


def depth_of(d):
    k = d[0]
    if k == 'C':
        return 1 + max([depth_of(x) for x in d[2]] + [0])
    if k == 'L':
        return 1 + max([depth_of(x) for x in d[1]] + [0])
    if k == 'M':
        return 1 + max([max(depth_of(a), depth_of(b)) for a, b in d[1]] + [0])
    return 0


# ---------------------------------------------------------------- reference encoder (Python twin of plutus_ref)
def head(m, n):
    if n < 24:
        return bytes([m * 32 + n])
    if n < 256:
        return bytes([m * 32 + 24, n])
    if n < 65536:
        return bytes([m * 32 + 25]) + n.to_bytes(2, 'big')
    if n < 2**32:
        return bytes([m * 32 + 26]) + n.to_bytes(4, 'big')
    return bytes([m * 32 + 27]) + n.to_bytes(8, 'big')


def ref_bytes(b):
    if len(b) <= 64:
        return head(2, len(b)) + b
    out = b'\x5f'
    for i in range(0, len(b), 64):
        c = b[i:i + 64]
        out += head(2, len(c)) + c
    return out + b'\xff'


def ref_int(z):
    if 0 <= z < 2**64:
        return head(0, z)
    if -2**64 <= z < 0:
        return head(1, -1 - z)
    if z >= 0:
        return head(6, 2) + ref_bytes(z.to_bytes((z.bit_length() + 7) // 8, 'big'))
    n = -1 - z
    return head(6, 3) + ref_bytes(n.to_bytes((n.bit_length() + 7) // 8, 'big'))


def ref_seq(xs):
    if not xs:
        return b'\x80'
    return b'\x9f' + b''.join(xs) + b'\xff'


def tag_of(i):
    if 0 <= i < 7:
        return 121 + i
    if 7 <= i < 128:
        return 1280 + (i - 7)
    return None


def ref_enc(d):
    k = d[0]
    if k == 'C':
        fl = ref_seq([ref_enc(f) for f in d[2]])
        t = tag_of(d[1])
        if t is not None:
            return head(6, t) + fl
        return head(6, 102) + head(4, 2) + head(0, d[1]) + fl
    if k == 'M':
        return head(5, len(d[1])) + b''.join(ref_enc(a) + ref_enc(b) for a, b in d[1])
    if k == 'L':
        return ref_seq([ref_enc(f) for f in d[1]])
    if k == 'I':
        return ref_int(d[1])
    return ref_bytes(bytes.fromhex(d[1]))


def json_of(d):
    k = d[0]
    if k == 'C':
        return {'constructor': d[1], 'fields': [json_of(f) for f in d[2]]}
    if k == 'M':
        return {'map': [{'k': json_of(a), 'v': json_of(b)} for a, b in d[1]]}
    if k == 'L':
        return {'list': [json_of(f) for f in d[1]]}
    if k == 'I':
        return {'int': d[1]}
    return {'bytes': d[1]}


# ---------------------------------------------------------------- pv trees
def seqv(xs):
    return ['il', xs] if xs else ['l', []]


def canon_tree(d):
    """raw_canon of Plutus.v as a pv tree"""
    k = d[0]
    if k == 'C':
        v = seqv([canon_tree(f) for f in d[2]])
        t = tag_of(d[1])
        return ['t', t, v] if t is not None else ['t', 102, ['l', [['i', d[1]], v]]]
    if k == 'M':
        return ['d', [[canon_tree(a), canon_tree(b)] for a, b in d[1]]]
    if k == 'L':
        return seqv([canon_tree(f) for f in d[1]])
    if k == 'I':
        return ['i', d[1]]
    return ['b', d[1]] if len(d[1]) <= 128 else ['s', d[1]]


def untag_id(t):
    return t - 121 if 121 <= t < 128 else t - 1280 + 7


def abs_tree(v):
    """abs of Plutus.v"""
    k = v[0]
    if k == 'i':
        return ['I', v[1]]
    if k in ('b', 's'):
        return ['B', v[1]]
    if k in ('l', 'il'):
        return ['L', [abs_tree(x) for x in v[1]]]
    if k == 'd':
        return ['M', [[abs_tree(a), abs_tree(b)] for a, b in v[1]]]
    if k == 't':
        if v[1] == 102:
            x = v[2]
            if x[0] in ('l', 'il') and len(x[1]) == 2 and x[1][0][0] == 'i':
                w = abs_tree(x[1][1])
                return ['C', x[1][0][1], w[1] if w[0] == 'L' else []]
            return ['C', 0, []]
        w = abs_tree(v[2])
        return ['C', untag_id(v[1]), w[1] if w[0] == 'L' else []]
    if k == 'o':
        return ['C', v[1], [abs_tree(x) for x in v[3]]]
    if k == 'r':
        return abs_tree(v[1])
    raise ValueError(k)


# ---------------------------------------------------------------- typed generator
def rand_cls(rng, depth, ids_used=None):
    n = rng.choice([0, 1, 1, 2, 2, 3])
    return ['cls', rand_id(rng), [rand_ty(rng, depth - 1) for _ in range(n)]]


def rand_key_cls(rng, depth):
    """a class whose instances can serve as dict keys (Map Credential Integer, Dict[Slot, ..]): every field is int /
    bytes / ByteString, such a class again, or a Union of such classes -- the field values are then all hashable.
    Datum / IndefiniteList / List / Dict fields are left out: their values are unhashable (list, dict, RawPlutusData),
    and a Datum field holding an int or bytes comes back from from_dict as RawPlutusData (see ASSUMPTIONS of c18.py)."""
    fts = []
    for _ in range(rng.choice([0, 1, 1, 2, 2, 3])):
        r = rng.random()
        if depth <= 0 or r < 0.6:
            fts.append(rng.choice([['int'], ['bytes'], ['bstr'], ['int'], ['bytes']]))
        elif r < 0.85:
            fts.append(rand_key_cls(rng, depth - 1))
        else:
            fts.append(rand_key_union(rng, depth - 1))
    return ['cls', rand_id(rng), fts]


def rand_key_union(rng, depth):
    alts, ids = [], set()
    for _ in range(rng.choice([2, 2, 3])):
        c = rand_key_cls(rng, depth)
        if c[1] in ids:
            continue
        ids.add(c[1]); alts.append(c)
    if len(alts) < 2:
        return alts[0]                 # typing.Union[X] IS X: a one-alternative Union does not exist in Python
    return ['union', alts]


def rand_key_ty(rng, depth=2):
    """key type of a Dict field: int / bytes / ByteString, a key class, or a Union of key classes"""
    r = rng.random()
    if r < 0.5:
        return rng.choice([['int'], ['bytes'], ['bytes'], ['bstr']])
    if r < 0.9:
        return rand_key_cls(rng, rng.choice([0, 1, 1, depth]))
    return rand_key_union(rng, 1)


def has_objkey(v, fields_only=True):
    """does the value hold a dict keyed by a class instance (with at least one field when fields_only)"""
    k = v[0]
    if k in ('l', 'il'):
        return any(has_objkey(x, fields_only) for x in v[1])
    if k == 'd':
        return any((a[0] == 'o' and (bool(a[3]) or not fields_only)) or has_objkey(a, fields_only) or has_objkey(b, fields_only)
                   for a, b in v[1])
    if k == 'o':
        return any(has_objkey(x, fields_only) for x in v[3])
    if k in ('t', 'r'):
        return has_objkey(v[2] if k == 't' else v[1], fields_only)
    return False


def rand_ty(rng, depth):
    r = rng.random()
    if depth <= 0 or r < 0.34:
        return rng.choice([['int'], ['bytes'], ['bstr'], ['int'], ['bytes'], ['ilist'], ['datum']])
    if r < 0.48:
        return ['list', rand_ty(rng, depth - 1)]
    if r < 0.66:
        return ['dict', rand_key_ty(rng), rand_ty(rng, depth - 1)]
    if r < 0.86:
        return rand_cls(rng, depth)
    alts, ids = [], set()
    for _ in range(rng.choice([2, 2, 3])):
        c = rand_cls(rng, depth)
        if c[1] in ids:
            continue
        ids.add(c[1]); alts.append(c)
    if rng.random() < 0.4:
        # Union with int / bytes / ByteString alternatives (Union[bytes, X], Union[X, int, bytes], ..) at any position.
        # DOMAIN RESTRICTION (see ASSUMPTIONS of c18.py): at most one of bytes / ByteString -- in Union[bytes, ByteString]
        # from_primitive rebuilds a ByteString of over 64 bytes through the first alternative as plain bytes and the
        # long-bytes guard refuses the class's own output
        prims = rng.choice([[['bytes']], [['bstr']], [['int']], [['int'], ['bytes']], [['bytes'], ['int']], [['bstr'], ['int']]])
        if rng.random() < 0.15:
            alts = []                  # no class alternative at all: Union[int, bytes]
            prims = rng.choice([[['int'], ['bytes']], [['bytes'], ['int']], [['int'], ['bstr']]])
        for pt in prims:
            alts.insert(rng.randint(0, len(alts)), pt)
    if len(alts) < 2:
        return alts[0]                 # typing.Union[X] IS X: a one-alternative Union does not exist in Python
    return ['union', alts]


# ---------------------------------------------------------------- long plain bytes (the long-bytes guard)
LONG = [65, 65, 66, 100, 127, 128, 129, 192, 193]


def takes_bytes(t):
    """a plain bytes value in a field declared t passes validate(): bytes, Datum, a Union with such an alternative, and --
    because typing.Dict[..].__origin__ is dict, not typing.Dict -- ANY Dict[..] annotation (a non-dict value is not
    checked at all)"""
    k = t[0]
    return k in ('bytes', 'datum', 'dict') or (k == 'union' and any(takes_bytes(a) for a in t[1]))


def conforms_bytes(t):
    """the field type can also DECODE a byte string into plain bytes (Dict[..] cannot: the value does not conform)"""
    k = t[0]
    return k in ('bytes', 'datum') or (k == 'union' and any(conforms_bytes(a) for a in t[1]))


def obj_nodes(v, out):
    """every class instance inside v that the driver builds through the dataclass constructor"""
    k = v[0]
    if k in ('l', 'il'):
        for x in v[1]:
            obj_nodes(x, out)
    elif k == 'd':
        for a, b in v[1]:
            obj_nodes(a, out); obj_nodes(b, out)
    elif k == 'o':
        out.append(v)
        for x in v[3]:
            obj_nodes(x, out)
    return out


def inject_long(rng, x):
    """put plain bytes of more than 64 bytes into a direct field of one class instance inside x (the top-level object,
    one nested in a field / list / dict value or key / Union) whose declared type lets the value through validate();
    returns 'conf' / 'nonconf' (a Dict[..] field) / None when no instance has such a field"""
    cands = [(o, i) for o in obj_nodes(x, []) for i, ft in enumerate(o[2]) if takes_bytes(ft)]
    if not cands:
        return None
    o, i = rng.choice(cands)
    n = rng.choice(LONG) if rng.random() < 0.8 else rng.randint(65, 200)
    o[3][i] = ['b', rbytes(rng, n).hex()]
    return 'conf' if conforms_bytes(o[2][i]) else 'nonconf'


def has_long_field(v):
    """some class instance inside v holds plain bytes of more than 64 bytes as a direct field value"""
    return any(f[0] == 'b' and len(f[1]) > 128 for o in obj_nodes(v, []) for f in o[3])


def has_prim_union(t):
    """the class description mentions a Union with an int / bytes / ByteString alternative"""
    k = t[0]
    if k == 'union':
        return any(a[0] in ('int', 'bytes', 'bstr') or has_prim_union(a) for a in t[1])
    if k == 'list':
        return has_prim_union(t[1])
    if k == 'dict':
        return has_prim_union(t[1]) or has_prim_union(t[2])
    if k == 'cls':
        return any(has_prim_union(a) for a in t[2])
    return False


def guard_ty(rng):
    """a field type that lets plain bytes through validate(), every declaration form"""
    inner = rand_cls(rng, 1)
    r = rng.random()
    if r < 0.2:
        return ['bytes']
    if r < 0.4:
        return ['datum']
    if r < 0.8:
        alts = [inner] + ([rand_cls(rng, 1)] if rng.random() < 0.3 else [])
        alts = [a for j, a in enumerate(alts) if a[1] not in [b[1] for b in alts[:j]]]
        alts.insert(rng.randint(0, len(alts)), ['bytes'])
        if rng.random() < 0.3:
            alts.insert(rng.randint(0, len(alts)), ['int'])
        return ['union', alts]
    return ['dict', rng.choice([['int'], ['bytes']]), rng.choice([['int'], inner])]


def rand_guard_case(rng):
    """a class with at least one field that lets plain bytes through validate(), possibly nested below another class
    (direct field, List / Dict value, Union alternative), holding more than 64 plain bytes there"""
    fts = [rand_ty(rng, 1) for _ in range(rng.choice([0, 0, 1, 2]))]
    fts.insert(rng.randint(0, len(fts)), guard_ty(rng))
    t = ['cls', rand_id(rng), fts]
    r = rng.random()
    if r < 0.5:
        top = t
    elif r < 0.65:
        top = ['cls', rand_id(rng), [['int'], t]]
    elif r < 0.8:
        top = ['cls', rand_id(rng), [['list', t]]]
    elif r < 0.9:
        top = ['cls', rand_id(rng), [['dict', ['int'], t]]]
    else:
        other = rand_cls(rng, 1)
        while other[1] == t[1]:
            other = rand_cls(rng, 1)
        top = ['cls', rand_id(rng), [['union', [other, t]]]]
    for _ in range(20):
        x = rand_val(rng, top, 0)
        how = inject_long(rng, x)
        if how:
            return top, x, how
    x = rand_val(rng, t, 0)
    return t, x, inject_long(rng, x)


def short_bytes(rng):
    n = rng.choice([0, 1, 28, 31, 32, 33, 63, 64]) if rng.random() < 0.7 else rng.randint(0, 40)
    return rbytes(rng, n).hex()


def rand_val(rng, t, odd=0.05):
    """a value conforming to t in canonical Python shape; with probability `odd` per node a legal but
    non-canonical variant (Python list for a non-empty list, IndefiniteList([]) for an empty one)"""
    k = t[0]
    if k == 'int':
        return ['i', rand_int(rng)]
    if k == 'bytes':
        return ['b', short_bytes(rng)]
    if k == 'bstr':
        return ['s', rand_bs(rng).hex()]
    if k == 'list':
        xs = [rand_val(rng, t[1], odd) for _ in range(rng.choice([0, 1, 1, 2, 3]))]
        if rng.random() < odd:
            return ['l', xs] if xs else ['il', []]
        return seqv(xs)
    if k == 'dict':
        kvs, seen = [], set()
        for _ in range(rng.choice([0, 1, 2, 3])):
            key = rand_val(rng, t[1], 0)
            kk = repr(abs_tree(key))                       # keys differ in content
            if kk in seen:
                continue
            seen.add(kk)
            kvs.append([key, rand_val(rng, t[2], odd)])
        return ['d', kvs]
    if k == 'cls':
        return ['o', t[1], t[2], [rand_val(rng, ft, odd) for ft in t[2]]]
    if k == 'union':
        return rand_val(rng, rng.choice(t[1]), odd)
    if k == 'ilist':
        xs = [canon_tree(rand_data(rng, 2, 0)) for _ in range(rng.choice([0, 1, 1, 2, 3]))]
        if not xs and rng.random() > odd * 4:
            xs = [['i', 1]]
        return ['il', xs]
    if k == 'datum':
        r = rng.random()
        if r < 0.2:
            return ['i', rand_int(rng)]
        if r < 0.35:
            return ['b', short_bytes(rng)]
        if r < 0.75:
            d = ['C', rand_id(rng), [rand_data(rng, 2, 0) for _ in range(rng.choice([0, 1, 2]))]]
            return ['r', canon_tree(d)]
        if r < 0.85:
            c = rand_cls(rng, 1)
            return rand_val(rng, c, odd)
        d = rand_data(rng, 2, 0)
        if d[0] == 'C':
            return ['r', canon_tree(d)]
        if d[0] == 'B' and len(d[1]) > 128:
            return ['b', d[1][:64]]
        if d == ['L', []]:
            return ['il', [['i', 0]]] if rng.random() > odd * 4 else ['il', []]
        return canon_tree(d)
    raise ValueError(k)


# ---------------------------------------------------------------- Coq literals
def c_data(d):
    k = d[0]
    if k == 'C':
        return f'(Constr {cn(d[1])} {clist([c_data(f) for f in d[2]])})'
    if k == 'M':
        return f'(Map {clist([cpair(c_data(a), c_data(b)) for a, b in d[1]])})'
    if k == 'L':
        return f'(List {clist([c_data(f) for f in d[1]])})'
    if k == 'I':
        return f'(I {cz(d[1])})'
    return f'(Bs {chx(bytes.fromhex(d[1]))})'


def c_ty(t):
    k = t[0]
    if k in ('int', 'bytes', 'bstr', 'ilist', 'datum'):
        return {'int': 'TInt', 'bytes': 'TBytes', 'bstr': 'TBStr', 'ilist': 'TIList', 'datum': 'TDatum'}[k]
    if k == 'list':
        return f'(TList {c_ty(t[1])})'
    if k == 'dict':
        return f'(TDict {c_ty(t[1])} {c_ty(t[2])})'
    if k == 'cls':
        return f'(TCls {cn(t[1])} {clist([c_ty(x) for x in t[2]])})'
    if k == 'union':
        return f'(TUnion {clist([c_ty(x) for x in t[1]])})'
    raise ValueError(k)


def c_pv(v):
    k = v[0]
    if k == 'i':
        return f'(PInt {cz(v[1])})'
    if k == 'b':
        return f'(PBytes {chx(bytes.fromhex(v[1]))})'
    if k == 's':
        return f'(PBStr {chx(bytes.fromhex(v[1]))})'
    if k == 'l':
        return f'(PList {clist([c_pv(x) for x in v[1]])})'
    if k == 'il':
        return f'(PIList {clist([c_pv(x) for x in v[1]])})'
    if k == 'd':
        return f'(PDict {clist([cpair(c_pv(a), c_pv(b)) for a, b in v[1]])})'
    if k == 't':
        return f'(PTag {cn(v[1])} {c_pv(v[2])})'
    if k == 'o':
        return f'(PObj {cn(v[1])} {clist([c_ty(x) for x in v[2]])} {clist([c_pv(x) for x in v[3]])})'
    if k == 'r':
        return f'(PRaw {c_pv(v[1])})'
    raise ValueError(k)


class BadJson(Exception):
    pass


def c_json(j):
    if not isinstance(j, dict):
        raise BadJson(repr(j)[:80])
    if 'constructor' in j:
        if not isinstance(j['constructor'], int) or j['constructor'] < 0 or set(j) != {'constructor', 'fields'}:
            raise BadJson(repr(j)[:80])
        return f'(JCon {cn(j["constructor"])} {clist([c_json(f) for f in j["fields"]])})'
    if len(j) != 1:
        raise BadJson(repr(j)[:80])
    if 'map' in j:
        for p in j['map']:
            if set(p) != {'k', 'v'}:
                raise BadJson(repr(p)[:80])
        return f'(JMap {clist([cpair(c_json(p["k"]), c_json(p["v"])) for p in j["map"]])})'
    if 'int' in j:
        if not isinstance(j['int'], int) or isinstance(j['int'], bool):
            raise BadJson(repr(j)[:80])
        return f'(JInt {cz(j["int"])})'
    if 'bytes' in j:
        return f'(JBytes {chx(bytes.fromhex(j["bytes"]))})'
    if 'list' in j:
        return f'(JList {clist([c_json(f) for f in j["list"]])})'
    raise BadJson(repr(j)[:80])


def c_err(s):
    return f'(Err {cstr(s[1:])})'


def o_bytes(r):
    if r is None:
        return 'OSkip'
    if isinstance(r, str) and r.startswith('!'):
        return f'(OB {c_err(r)})'
    return f'(OB (Ok {chx(bytes.fromhex(r))}))'


def o_json(r):
    if r is None:
        return 'OSkip'
    if isinstance(r, str) and r.startswith('!'):
        return f'(OJ {c_err(r)})'
    try:
        return f'(OJ (Ok {c_json(r)}))'
    except BadJson:
        return '(OJ (Err "BadJson"))'


def o_flag(r):
    if r is None:
        return 'OSkip'
    if isinstance(r, str) and r.startswith('!'):
        return f'(OB {c_err(r)})'
    return f'(OF {cbool(bool(r))})'


RAW_ROUTES = [(0, 'canon', o_bytes), (1, 'py', o_bytes), (2, 'dec', o_bytes), (3, 'dec_hash_ok', o_flag),
              (8, 'dec_hash2_ok', o_flag), (4, 'todict', o_json), (5, 'json_rt', o_bytes), (6, 'json_rt2', o_bytes),
              (7, 'fromdict', o_bytes)]
TYPED_ROUTES = [(0, 'enc', o_bytes), (1, 'hash_ok', o_flag), (2, 'rt_self', o_bytes), (3, 'rt_ref', o_bytes),
                (4, 'todict', o_json), (5, 'dict_rt', o_bytes), (6, 'json_rt', o_bytes), (7, 'redeemer_ok', o_flag)]
ROUTE_NAMES = {'raw': {n: s for n, s, _ in RAW_ROUTES}, 'typed': {n: s for n, s, _ in TYPED_ROUTES}}
ROUTE_NAMES['typed'][9] = 'construct'
ROUTE_NAMES['typed'][90] = 'in-place-edit-then-reencode'
ROUTE_NAMES['raw'][99] = ROUTE_NAMES['typed'][99] = 'harness-reference-encoder'


def c_obs(routes, res):
    return clist([cpair(cnat(n), f(res.get(key))) for n, key, f in routes])


def c_case(case, res):
    global _POOL
    _POOL = {}
    try:
        body = c_case0(case, res)
        lets = ''.join(f'let {name} := {_chx(b)} in ' for b, name in _POOL.items())
    finally:
        _POOL = None
    return f'({lets}{body})' if lets else body


def c_case0(case, res):
    k = case['kind']
    if k == 'raw':
        return f'(CRaw {c_data(case["d"])} {chx(bytes.fromhex(case["ref"]))} {c_obs(RAW_ROUTES, res)})'
    if k == 'typed':
        if res.get('construct') != 'ok':
            # refused at construction: the exception kind, and the decode of the reference bytes (needs the class only)
            obs = clist([cpair(cnat(9), o_bytes(res['construct']))]
                        + ([cpair(cnat(3), o_bytes(res['rt_ref']))] if res.get('rt_ref') is not None else []))
        else:
            routes = [r for r in TYPED_ROUTES if not (case.get('skip_ref') and r[1] == 'rt_ref')]
            obs = c_obs(routes + [(9, 'construct', lambda r: '(OF true)')], res)
        return (f'(CTyped {cbool(bool(case.get("pp")))} {c_ty(case["t"])} {c_pv(case["x"])} '
                f'{chx(bytes.fromhex(case["ref"]))} {obs})')
    if k == 'guard':
        return f'(CGuard {cn(case["id"])} {cnat(case["n"])} {o_bytes(res["construct"])})'
    if k == 'tag':
        if 'id' in case:
            r = res['get_tag']
            if isinstance(r, str) and r.startswith('!'):
                o = f'(OT {c_err(r)})'
            else:
                o = '(OT (Ok None))' if r is None else f'(OT (Ok (Some {cn(r)})))'
            return f'(CGetTag {cn(case["id"])} {o})'
        r = res['untag']
        ln = 2 if case['tag'] == 102 and not case.get('bad102') else 3
        value = [7, [8]] if ln == 2 else [7, 8, 9]
        if r == '!DeserializeException':
            o = '(OU URaise)'
        elif isinstance(r, str):
            o = '(OU UBad)'
        elif r == [value[0], value[1]] and ln == 2:
            o = '(OU UPair)'
        elif r[1] == value and isinstance(r[0], int) and r[0] >= 0:
            o = f'(OU (UWhole {cn(r[0])}))'
        else:
            o = '(OU UBad)'
        return f'(CUntag {cn(case["tag"])} {cn(ln)} {o})'
    raise ValueError(k)
