"""Look-alike transaction ids for the builder scenarios.

Ids produced by a hash function never resemble each other; ids written by people, test networks and tooling do (counters,
shared prefixes, shared tails).  After a scenario has been generated, `lookalike_ids` rewrites some of its transaction ids --
everywhere they occur in the scenario -- so that they agree with another id of the same scenario in the first 9 and the
last 5 bytes (or only the head, or only the tail) and differ in the middle.  The scenario stays the same scenario up to
renaming of ids: distinct ids stay distinct, and the model and the implementation both receive the rewritten one."""
import re

HEX64 = re.compile(r'^[0-9a-f]{64}$')


def _walk(o, f):
    if isinstance(o, dict):
        return {k: _walk(v, f) for k, v in o.items()}
    if isinstance(o, list):
        return [_walk(v, f) for v in o]
    if isinstance(o, tuple):
        return tuple(_walk(v, f) for v in o)
    if isinstance(o, str):
        return f(o)
    return o


def lookalike_ids(rng, case, keys=('t', 'id', 'txid'), p=0.3):
    """case: a JSON-like scenario; ids = the 64-hex-digit strings stored under one of `keys` anywhere in it"""
    if rng.random() >= p:
        return case
    ids = []

    def find(o):
        if isinstance(o, dict):
            for k, v in o.items():
                if k in keys and isinstance(v, str) and HEX64.match(v) and v not in ids:
                    ids.append(v)
                find(v)
        elif isinstance(o, (list, tuple)):
            for v in o:
                find(v)
    find(case)
    if len(ids) < 2:
        return case
    a = rng.choice(ids)
    others = [x for x in ids if x != a]
    rng.shuffle(others)
    ren = {}
    for b in others[:rng.randint(1, 3)]:
        how = rng.choice(['both', 'both', 'head', 'tail'])
        nb = (a[:18] if how != 'tail' else b[:18]) + b[18:54] + (a[54:] if how != 'head' else b[54:])
        if nb in ids or nb in ren.values() or nb == b:
            continue
        ren[b] = nb
    if not ren:
        return case
    out = _walk(case, lambda s: ren.get(s, s))
    if isinstance(out, dict):
        out['alike_ids'] = len(ren)
    return out
