#!/usr/bin/env python3
"""Prints the markdown table of seeded defects (seeded/*/meta.json): docs/seeded_table.md, summarised in DESIGN.md 11.9."""
import glob, json, os
V = os.path.dirname(os.path.dirname(os.path.abspath(__file__)))


def kind(v):
    if not v:
        return '—'
    s = list(v.values())[0]['verdict']
    if s.startswith('VIOLATION'):
        return 'VIOLATION (obligation broken, no failing input found)' if 'no-failing-input-found' in s else 'VIOLATION with failing input'
    if s.startswith('OK'):
        return 'missed (OK)'
    return s[:40]


def main():
    rows = []
    for d in sorted(glob.glob(os.path.join(V, 'seeded', '*'))):
        mp = os.path.join(d, 'meta.json')
        if not os.path.exists(mp):
            continue
        m = json.load(open(mp))
        w = m.get('what_i_ran', {})
        first = kind(w.get('first_evaluation'))
        after = kind(w.get('after_strengthening')) if 'after_strengthening' in w else ''
        title = (m.get('title') or '').replace('|', '/')
        needs = (m.get('what_it_needs_to_manifest') or '').replace('|', '/').replace('\n', ' ')
        if len(needs) > 170:
            needs = needs[:167] + '...'
        rows.append((m['id'], title, needs, first, after, w.get('strengthened_by', '')))
    print('| id | seeded change | needs | first evaluation | after strengthening |')
    print('|---|---|---|---|---|')
    for r in rows:
        print(f'| {r[0]} | {r[1]} | {r[2]} | {r[3]} | {r[4]}{(" — " + r[5]) if r[5] else ""} |')
    n = len(rows)
    c1 = sum(1 for r in rows if r[3].startswith('VIOLATION'))
    c2 = sum(1 for r in rows if (r[4] or r[3]).startswith('VIOLATION'))
    print(f'\n{n} seeded changes; caught at first evaluation: {c1}; caught by the current checks: {c2}.')


if __name__ == '__main__':
    main()
