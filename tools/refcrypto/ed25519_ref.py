"""Pure-Python Ed25519 (RFC 8032, section 6 reference algorithm; extended homogeneous coordinates).

Independent of libsodium / OpenSSL / pycardano: only `hashlib.sha512` and integer arithmetic.
Used by the correspondence harnesses as the specification-side instantiation of the abstract
signature primitives of the Coq models (C16, C19).  Slow (a few ms per operation) by design.

API (all byte strings are `bytes`):
  secret_expand(seed32) -> (a:int clamped scalar, prefix:bytes32)
  secret_to_public(seed32) -> pk32
  sign(seed32, msg) -> sig64                      RFC 8032 5.1.6 (deterministic)
  verify(pk32, msg, sig) -> bool                  RFC 8032 5.1.7, cofactorless equation [S]B = R + [k]A, S < L required
  scalarmult_base_noclamp(scalar32_le) -> point32 [n mod 2^255 ... see below]B   (libsodium crypto_scalarmult_ed25519_base_noclamp)
  sign_extended(kL32, kR32, msg) -> sig64         BIP32-Ed25519 / Cardano extended-key signing (scalar kL used as is, nonce prefix kR)
"""
import hashlib

p = 2 ** 255 - 19
L = 2 ** 252 + 27742317777372353535851937790883648493
d = -121665 * pow(121666, p - 2, p) % p
SQRT_M1 = pow(2, (p - 1) // 4, p)


def sha512(s):
    return hashlib.sha512(s).digest()


def _inv(x):
    return pow(x, p - 2, p)


def point_add(P, Q):
    A = (P[1] - P[0]) * (Q[1] - Q[0]) % p
    B = (P[1] + P[0]) * (Q[1] + Q[0]) % p
    C = 2 * P[3] * Q[3] * d % p
    D = 2 * P[2] * Q[2] % p
    E, F, G_, H = B - A, D - C, D + C, B + A
    return (E * F % p, G_ * H % p, F * G_ % p, E * H % p)


def point_mul(s, P):
    Q = (0, 1, 1, 0)
    while s > 0:
        if s & 1:
            Q = point_add(Q, P)
        P = point_add(P, P)
        s >>= 1
    return Q


def point_equal(P, Q):
    if (P[0] * Q[2] - Q[0] * P[2]) % p != 0:
        return False
    if (P[1] * Q[2] - Q[1] * P[2]) % p != 0:
        return False
    return True


def recover_x(y, sign):
    if y >= p:
        return None
    x2 = (y * y - 1) * _inv(d * y * y + 1) % p
    if x2 == 0:
        return None if sign else 0
    x = pow(x2, (p + 3) // 8, p)
    if (x * x - x2) % p != 0:
        x = x * SQRT_M1 % p
    if (x * x - x2) % p != 0:
        return None
    if (x & 1) != sign:
        x = p - x
    return x


g_y = 4 * _inv(5) % p
g_x = recover_x(g_y, 0)
G = (g_x, g_y, 1, g_x * g_y % p)


def point_compress(P):
    zinv = _inv(P[2])
    x = P[0] * zinv % p
    y = P[1] * zinv % p
    return int.to_bytes(y | ((x & 1) << 255), 32, 'little')


def point_decompress(s):
    if len(s) != 32:
        return None
    y = int.from_bytes(s, 'little')
    sign = y >> 255
    y &= (1 << 255) - 1
    x = recover_x(y, sign)
    if x is None:
        return None
    return (x, y, 1, x * y % p)


def secret_expand(secret):
    if len(secret) != 32:
        raise ValueError('bad size of private key')
    h = sha512(secret)
    a = int.from_bytes(h[:32], 'little')
    a &= (1 << 254) - 8
    a |= (1 << 254)
    return a, h[32:]


def secret_to_public(secret):
    a, _ = secret_expand(secret)
    return point_compress(point_mul(a, G))


def sha512_modq(s):
    return int.from_bytes(sha512(s), 'little') % L


def sign(secret, msg):
    a, prefix = secret_expand(secret)
    A = point_compress(point_mul(a, G))
    r = sha512_modq(prefix + msg)
    Rs = point_compress(point_mul(r, G))
    h = sha512_modq(Rs + A + msg)
    s = (r + h * a) % L
    return Rs + int.to_bytes(s, 32, 'little')


def verify(public, msg, signature):
    if len(public) != 32 or len(signature) != 64:
        return False
    A = point_decompress(public)
    if A is None:
        return False
    Rs = signature[:32]
    R = point_decompress(Rs)
    if R is None:
        return False
    s = int.from_bytes(signature[32:], 'little')
    if s >= L:
        return False
    h = sha512_modq(Rs + public + msg)
    sB = point_mul(s, G)
    hA = point_mul(h, A)
    return point_equal(sB, point_add(R, hA))


def scalarmult_base_noclamp(scalar):
    """libsodium crypto_scalarmult_ed25519_base_noclamp: the top bit of the 32-byte little-endian scalar is
    cleared, no other clamping; the scalar is NOT reduced mod L (the group order makes that irrelevant)."""
    if len(scalar) != 32:
        raise ValueError('bad scalar size')
    n = int.from_bytes(scalar, 'little') & ((1 << 255) - 1)
    return point_compress(point_mul(n, G))


def sign_extended(kL, kR, msg):
    """Cardano / BIP32-Ed25519 signing with an extended private key (kL scalar used as is, kR nonce prefix)."""
    A = scalarmult_base_noclamp(kL)
    r = sha512_modq(kR + msg)
    Rs = point_compress(point_mul(r, G))
    h = sha512_modq(Rs + A + msg)
    s = (h * (int.from_bytes(kL, 'little') % L) + r) % L
    return Rs + int.to_bytes(s, 32, 'little')


def _selftest():
    # RFC 8032 7.1 TEST 1-3
    vec = [('9d61b19deffd5a60ba844af492ec2cc44449c5697b326919703bac031cae7f60',
            'd75a980182b10ab7d54bfed3c964073a0ee172f3daa62325af021a68f707511a', '',
            'e5564300c360ac729086e2cc806e828a84877f1eb8e5d974d873e065224901555fb8821590a33bacc61e39701cf9b46bd25bf5f0595bbe24655141438e7a100b'),
           ('4ccd089b28ff96da9db6c346ec114e0f5b8a319f35aba624da8cf6ed4fb8a6fb',
            '3d4017c3e843895a92b70aa74d1b7ebc9c982ccf2ec4968cc0cd55f12af4660c', '72',
            '92a009a9f0d4cab8720e820b5f642540a2b27b5416503f8fb3762223ebdb69da085ac1e43e15996e458f3613d0f11d8c387b2eaeb4302aeeb00d291612bb0c00'),
           ('c5aa8df43f9f837bedb7442f31dcb7b166d38535076f094b85ce3a2e0b4458f7',
            'fc51cd8e6218a1a38da47ed00230f0580816ed13ba3303ac5deb911548908025', 'af82',
            '6291d657deec24024827e69c3abe01a30ce548a284743a445e3680d7db5ac3ac18ff9b538d16f290ae67f760984dc6594a7c15e9716ed28dc027beceea1ec40a')]
    for sk, pk, m, sg in vec:
        sk, pk, m, sg = map(bytes.fromhex, (sk, pk, m, sg))
        assert secret_to_public(sk) == pk
        assert sign(sk, m) == sg
        assert verify(pk, m, sg)
        assert not verify(pk, m + b'x', sg)
    return True


if __name__ == '__main__':
    print(_selftest())
